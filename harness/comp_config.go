package main

// component `config` (property C20): the real config.Config.Validate / SaveManifest / LoadConfigFromManifest and
// engine.NewEngineFacade against Kevo.Model.Config.
//
// Script ops (one output line each):
//   new | zero | defaults            fresh temp root (database dir = <root>/db, not created) / in-memory config
//   set <Field> i:<dec>|s:<hex or =>|f:<16 hex digits: float64 bits>      strings are database-relative: <db>/<bytes>
//   show                              -> cfg <Field=value ...>
//   validate                          -> ok | err invalid:<message class>
//   save                              -> ok|err <class>  dir=<absent|none|MANIFEST[,MANIFEST.tmp]> mid=<old|changed|-> tmp=<yes|no|->
//                                        (mid/tmp: state of the directory at hook site manifest.tmpWritten)
//   load                              -> ok <fields> | err notfound|read|invalidmanifest|invalid:<class>
//   trunc head <n> | trunc tail <k>   cut the stored MANIFEST to min(n,len-1) / max(0,len-k) bytes -> ok | err nomanifest
//   truncall                          every proper prefix of the stored MANIFEST: load and engine open must fail
//   garbage <hex> | plant | unreadable | rmmanifest      write bytes / the in-memory config unvalidated / a directory / nothing
//   openengine                        -> ok <fields of the engine's config> wals=<sub-dirs holding *.wal> | err load <class> | err save <class>

import (
	"bufio"
	"encoding/json"
	"errors"
	"fmt"
	"math"
	"math/big"
	"os"
	"path/filepath"
	"reflect"
	"sort"
	"strconv"
	"strings"
	"sync"
	"time"
	"unsafe"

	"github.com/KevoDB/kevo/pkg/config"
	"github.com/KevoDB/kevo/pkg/engine"
	"github.com/KevoDB/kevo/pkg/verifhook"
)

func init() {
	components["config"] = &component{gen: genConfig, run: runConfig}
}

// ---------- reflection over config.Config ----------

type cfgFieldInfo struct {
	name string
	kind string // int | str | float
	idx  int
}

func cfgFieldInfos() []cfgFieldInfo {
	t := reflect.TypeOf(config.Config{})
	var out []cfgFieldInfo
	for i := 0; i < t.NumField(); i++ {
		f := t.Field(i)
		if !f.IsExported() {
			continue
		}
		switch f.Type.Kind() {
		case reflect.Int, reflect.Int64, reflect.Int32:
			out = append(out, cfgFieldInfo{f.Name, "int", i})
		case reflect.String:
			out = append(out, cfgFieldInfo{f.Name, "str", i})
		case reflect.Float64:
			out = append(out, cfgFieldInfo{f.Name, "float", i})
		default:
			out = append(out, cfgFieldInfo{f.Name, "other", i})
		}
	}
	return out
}

func fmtFloat(f float64) string {
	switch {
	case math.IsNaN(f):
		return "nan"
	case math.IsInf(f, 1):
		return "+inf"
	case math.IsInf(f, -1):
		return "-inf"
	}
	r := new(big.Rat).SetFloat64(f)
	return r.Num().String() + "/" + r.Denom().String()
}

func relStr(db, s string) string {
	if s == "" {
		return "="
	}
	if strings.HasPrefix(s, db+"/") && len(s) > len(db)+1 {
		return hx([]byte(s[len(db)+1:]))
	}
	return "abs:" + hx([]byte(s))
}

func fmtCfg(db string, c *config.Config) string {
	v := reflect.ValueOf(c).Elem()
	var parts []string
	for _, f := range cfgFieldInfos() {
		fv := v.Field(f.idx)
		switch f.kind {
		case "int":
			parts = append(parts, fmt.Sprintf("%s=%d", f.name, fv.Int()))
		case "str":
			parts = append(parts, f.name+"="+relStr(db, fv.String()))
		case "float":
			parts = append(parts, f.name+"="+fmtFloat(fv.Float()))
		default:
			parts = append(parts, f.name+"=?")
		}
	}
	return strings.Join(parts, " ")
}

func setCfgField(db string, c *config.Config, name, tok string) bool {
	v := reflect.ValueOf(c).Elem()
	for _, f := range cfgFieldInfos() {
		if f.name != name {
			continue
		}
		fv := v.Field(f.idx)
		switch {
		case f.kind == "int" && strings.HasPrefix(tok, "i:"):
			n, err := strconv.ParseInt(tok[2:], 10, 64)
			if err != nil || fv.OverflowInt(n) {
				return false
			}
			fv.SetInt(n)
			return true
		case f.kind == "str" && strings.HasPrefix(tok, "s:"):
			if tok[2:] == "=" {
				fv.SetString("")
			} else {
				fv.SetString(db + "/" + string(unhx(tok[2:])))
			}
			return true
		case f.kind == "float" && strings.HasPrefix(tok, "f:") && len(tok) == 18:
			bits, err := strconv.ParseUint(tok[2:], 16, 64)
			if err != nil {
				return false
			}
			fv.SetFloat(math.Float64frombits(bits))
			return true
		}
		return false
	}
	return false
}

// ---------- error classes ----------

func msgClass(s string) string {
	if i := strings.IndexAny(s, "0123456789%"); i >= 0 {
		s = s[:i]
	}
	return strings.ReplaceAll(strings.TrimRight(s, " -"), " ", "_")
}

func cfgErrClass(err error) string {
	switch {
	case errors.Is(err, config.ErrManifestNotFound):
		return "notfound"
	case errors.Is(err, config.ErrInvalidManifest):
		return "invalidmanifest"
	case errors.Is(err, config.ErrInvalidConfig):
		m := err.Error()
		if i := strings.Index(m, config.ErrInvalidConfig.Error()+": "); i >= 0 {
			m = m[i+len(config.ErrInvalidConfig.Error())+2:]
		}
		return "invalid:" + msgClass(m)
	case strings.Contains(err.Error(), "failed to read manifest"):
		return "read"
	case strings.Contains(err.Error(), "failed to marshal config"):
		return "marshal"
	case strings.Contains(err.Error(), "failed to create directory"), strings.Contains(err.Error(), "failed to write manifest"),
		strings.Contains(err.Error(), "failed to rename manifest"):
		return "io"
	}
	return "other:" + strings.ReplaceAll(err.Error(), " ", "_")
}

// ---------- executor ----------

type cfgRun struct {
	r   *runner
	db  string
	cfg *config.Config
}

func (x *cfgRun) manifest() string { return filepath.Join(x.db, config.DefaultManifestFileName) }

func (x *cfgRun) listing() string {
	ents, err := os.ReadDir(x.db)
	if err != nil {
		return "absent"
	}
	var names []string
	for _, e := range ents {
		if strings.HasPrefix(e.Name(), config.DefaultManifestFileName) {
			names = append(names, e.Name())
		}
	}
	if len(names) == 0 {
		return "none"
	}
	sort.Strings(names)
	return strings.Join(names, ",")
}

// snapshot of the manifest path: "absent", "dir", or "file:<bytes>"
func (x *cfgRun) manifestSnap() string {
	st, err := os.Stat(x.manifest())
	if err != nil {
		return "absent"
	}
	if st.IsDir() {
		return "dir"
	}
	b, _ := os.ReadFile(x.manifest())
	return "file:" + string(b)
}

func (x *cfgRun) save() (out string) {
	defer func() {
		verifhook.Set(nil)
		if p := recover(); p != nil {
			out = fmt.Sprintf("panic %v", p)
		}
	}()
	before := x.manifestSnap()
	mid, tmp := "-", "-"
	verifhook.Set(func(site string) {
		if site != "manifest.tmpWritten" {
			return
		}
		if x.manifestSnap() == before {
			mid = "old"
		} else {
			mid = "changed"
		}
		if _, err := os.Stat(x.manifest() + ".tmp"); err == nil {
			tmp = "yes"
		} else {
			tmp = "no"
		}
	})
	err := x.cfg.SaveManifest(x.db)
	verifhook.Set(nil)
	res := "ok"
	if err != nil {
		res = "err " + cfgErrClass(err)
	}
	return fmt.Sprintf("%s dir=%s mid=%s tmp=%s", res, x.listing(), mid, tmp)
}

func (x *cfgRun) load() (out string) {
	defer func() {
		if p := recover(); p != nil {
			out = fmt.Sprintf("panic %v", p)
		}
	}()
	c, err := config.LoadConfigFromManifest(x.db)
	if err != nil {
		if c != nil {
			return "err " + cfgErrClass(err) + " with-config"
		}
		return "err " + cfgErrClass(err)
	}
	return "ok " + fmtCfg(x.db, c)
}

// engineCfg reads the configuration the opened engine runs with (unexported field `cfg`).
func engineCfg(e *engine.EngineFacade) *config.Config {
	f := reflect.ValueOf(e).Elem().FieldByName("cfg")
	if !f.IsValid() || f.Type() != reflect.TypeOf((*config.Config)(nil)) {
		return nil
	}
	return *(**config.Config)(unsafe.Pointer(f.UnsafeAddr()))
}

func (x *cfgRun) walDirs() string {
	ents, _ := os.ReadDir(x.db)
	var names []string
	for _, e := range ents {
		if !e.IsDir() {
			continue
		}
		if m, _ := filepath.Glob(filepath.Join(x.db, e.Name(), "*.wal")); len(m) > 0 {
			names = append(names, e.Name())
		}
	}
	if len(names) == 0 {
		return "-"
	}
	sort.Strings(names)
	for i := range names {
		names[i] = hx([]byte(names[i]))
	}
	return strings.Join(names, ",")
}

func (x *cfgRun) openEngine() (out string, opened bool) {
	defer func() {
		if p := recover(); p != nil {
			out = fmt.Sprintf("panic %v", p)
		}
	}()
	e, err := engine.NewEngineFacade(x.db)
	if err != nil {
		m := err.Error()
		switch {
		case strings.HasPrefix(m, "failed to load configuration"):
			return "err load " + cfgErrClass(err), false
		case strings.HasPrefix(m, "failed to save configuration"):
			return "err save " + cfgErrClass(err), false
		}
		return "err other:" + strings.ReplaceAll(m, " ", "_"), false
	}
	c := engineCfg(e)
	e.Put([]byte("k"), []byte("v")) // existing data for the next session
	e.Close()
	if c == nil {
		return "ok cfg-unobservable wals=" + x.walDirs(), true
	}
	return "ok " + fmtCfg(x.db, c) + " wals=" + x.walDirs(), true
}

func (x *cfgRun) truncAll() string {
	st, err := os.Stat(x.manifest())
	if err != nil || st.IsDir() {
		return "truncall nomanifest"
	}
	full, _ := os.ReadFile(x.manifest())
	defer os.WriteFile(x.manifest(), full, 0644)
	for n := 0; n < len(full); n++ {
		os.WriteFile(x.manifest(), full[:n], 0644)
		l := x.load()
		if l != "err invalidmanifest" {
			return fmt.Sprintf("truncall bad load tail=%d: %s", len(full)-n, strings.ReplaceAll(l, " ", "_"))
		}
		o, opened := x.openEngine()
		if opened || o != "err load invalidmanifest" {
			return fmt.Sprintf("truncall bad open tail=%d: %s", len(full)-n, strings.ReplaceAll(o, " ", "_"))
		}
	}
	return "truncall ok"
}

func runConfig(r *runner) {
	x := &cfgRun{r: r, cfg: &config.Config{}}
	fresh := func() {
		r.dropTemp()
		root := r.tempDir()
		pad := 40 - len(root) // constant path length (the manifest embeds the path): deterministic byte offsets
		if pad < 0 {
			pad = 0
		}
		x.db = filepath.Join(root, "db"+strings.Repeat("_", pad))
		x.cfg = &config.Config{}
	}
	fresh()
	for {
		ws, ok := r.next()
		if !ok {
			break
		}
		switch {
		case ws[0] == "new" && len(ws) == 1:
			fresh()
			r.emit("ok")
		case ws[0] == "zero" && len(ws) == 1:
			x.cfg = &config.Config{}
			r.emit("ok")
		case ws[0] == "defaults" && len(ws) == 1:
			x.cfg = config.NewDefaultConfig(x.db)
			r.emit("ok")
		case ws[0] == "set" && len(ws) == 3:
			if setCfgField(x.db, x.cfg, ws[1], ws[2]) {
				r.emit("ok")
			} else {
				r.emit("bad-op")
			}
		case ws[0] == "show" && len(ws) == 1:
			r.emit("cfg " + fmtCfg(x.db, x.cfg))
		case ws[0] == "validate" && len(ws) == 1:
			if err := x.cfg.Validate(); err != nil {
				r.emit("err " + cfgErrClass(err))
			} else {
				r.emit("ok")
			}
		case ws[0] == "save" && len(ws) == 1:
			r.emit(x.save())
		case ws[0] == "load" && len(ws) == 1:
			r.emit(x.load())
		case ws[0] == "trunc" && len(ws) == 3:
			st, err := os.Stat(x.manifest())
			if err != nil || st.IsDir() {
				r.emit("err nomanifest")
				break
			}
			n, _ := strconv.Atoi(ws[2])
			size := int(st.Size())
			var to int
			if ws[1] == "head" {
				to = n
				if to > size-1 {
					to = size - 1
				}
			} else {
				if n < 1 {
					n = 1
				}
				to = size - n
			}
			if to < 0 {
				to = 0
			}
			os.Truncate(x.manifest(), int64(to))
			r.emit("ok")
		case ws[0] == "truncall" && len(ws) == 1:
			r.emit(x.truncAll())
		case ws[0] == "garbage" && len(ws) == 2:
			os.MkdirAll(x.db, 0755)
			os.RemoveAll(x.manifest())
			os.WriteFile(x.manifest(), unhx(ws[1]), 0644)
			r.emit("ok")
		case ws[0] == "plant" && len(ws) == 1:
			b, err := json.MarshalIndent(x.cfg, "", "  ")
			if err != nil {
				r.emit("err marshal")
				break
			}
			os.MkdirAll(x.db, 0755)
			os.RemoveAll(x.manifest())
			os.WriteFile(x.manifest(), b, 0644)
			r.emit("ok")
		case ws[0] == "unreadable" && len(ws) == 1:
			os.MkdirAll(x.db, 0755)
			os.RemoveAll(x.manifest())
			os.Mkdir(x.manifest(), 0755)
			r.emit("ok")
		case ws[0] == "rmmanifest" && len(ws) == 1:
			os.RemoveAll(x.manifest())
			r.emit("ok")
		case ws[0] == "openengine" && len(ws) == 1:
			o, _ := x.openEngine()
			r.emit(o)
		case ws[0] == "saverace" && len(ws) == 2:
			res := make(chan string, 1)
			go func() { res <- cfgSaveRace(r, atoi(ws[1])) }()
			select {
			case o := <-res:
				r.emit(o)
			case <-time.After(patience(60 * time.Second)):
				r.emit("saverace hung (SaveManifest and Update wait for each other)")
			}
		default:
			r.emit("bad-op")
		}
	}
}

// ---------- generator ----------

var cfgIntBoundary = []int64{-1, 0, 1, 2, 98, 99, 100, 101, 1<<31 - 1, 1 << 31, 1 << 40, math.MaxInt64, math.MinInt64}

var cfgStrSamples = []string{
	"=",          // empty
	"77",         // "w"
	"7732",       // "w2"
	"77616c",     // "wal"
	"c3bc",       // ü
	"e6bca2",     // 漢
	"f09f9880",   // 😀
	"efbfbd",     // a literal U+FFFD (valid)
	"e280a8",     // U+2028 (escaped by encoding/json)
	"3c3e26",     // <>& (HTML-escaped by encoding/json)
	"225c2f",     // "\/
	"0001091f7f", // control characters
	"20",         // a space
	"ff",         // invalid: lone 0xff
	"77ff78",     // invalid in the middle
	"c0af",       // overlong
	"eda080",     // UTF-16 surrogate
	"e282",       // truncated 3-byte sequence
	"f4908080",   // beyond U+10FFFF
	"80",         // lone continuation byte
	"c3",         // truncated 2-byte sequence
	"f09f98",     // truncated 4-byte sequence
	"77c328",     // bad continuation
}

var cfgFloatSamples = []uint64{
	0x7ff8000000000000, // NaN
	0x7ff0000000000001, // signalling NaN
	0xfff8000000000000, // -NaN
	0x7ff0000000000000, // +Inf
	0xfff0000000000000, // -Inf
	0x3ff0000000000000, // 1.0
	0x3ff0000000000001, // nextafter(1, +inf)
	0x3fefffffffffffff, // nextafter(1, 0)
	0x3ff000001ad7f29b, // 1.0000001
	0x4024000000000000, // 10
	0x3ff8000000000000, // 1.5
	0x4000000000000000, // 2
	0x0000000000000000, // 0
	0x8000000000000000, // -0
	0xbff0000000000000, // -1
	0xc024000000000000, // -10
	0x0000000000000001, // smallest denormal
	0x0010000000000000, // smallest normal
	0x7fefffffffffffff, // largest finite
	0x444b1ae4d6e2ef50, // 1e21 (exponent notation in JSON)
	0x3eb0c6f7a0b5ed8d, // 1e-6
	0x3e7ad7f29abcaf48, // 1e-7 (exponent notation in JSON)
	0x400921fb54442d18, // pi
	0x3ff0000000000002,
}

// all of whose prefixes (and themselves) fail json.Unmarshal into a Config
var cfgGarbage = []string{"7b", "7b2276657273696f6e223a", "6e756c", "5b312c32", "0001", "7b2276657273696f6e223a2278227d", "31", "5b5d", "74727565", "7b2276657273696f6e223a317d78"}

// names an engine can really create
var cfgSaneDirs = []string{"7732", "6c6f6773", "77616c", "64617461", "737374", "7332"}

func cfgCase(w *bufio.Writer, id string, lines ...string) {
	fmt.Fprintf(w, "# case %s\n", id)
	for _, l := range lines {
		fmt.Fprintln(w, l)
	}
}

// cfgSaveRace: one goroutine saves the configuration again and again while another one keeps switching a field between a valid
// and an invalid value (Config.Update): whatever a save that reported success has stored loads and validates (a save validates and
// writes ONE state of the configuration)
func cfgSaveRace(r *runner, iters int) (out string) {
	defer func() {
		if p := recover(); p != nil {
			out = "saverace panic"
		}
	}()
	base := r.tempDir()
	defer os.RemoveAll(base)
	// a deep, not yet existing database directory: creating it takes the save a while
	db := base
	for i := 0; i < 40; i++ {
		db = filepath.Join(db, "d")
	}
	c := config.NewDefaultConfig(db)
	stop := make(chan struct{})
	var wg sync.WaitGroup
	wg.Add(1)
	go func() {
		defer wg.Done()
		valid := c.MemTableSize
		for i := 0; ; i++ {
			select {
			case <-stop:
				c.Update(func(c *config.Config) { c.MemTableSize = valid })
				return
			default:
			}
			if i%2 == 0 {
				c.Update(func(c *config.Config) { c.MemTableSize = 0 })
			} else {
				c.Update(func(c *config.Config) { c.MemTableSize = valid })
			}
		}
	}()
	saved, refused, bad := 0, 0, ""
	for i := 0; i < iters && bad == ""; i++ {
		os.RemoveAll(filepath.Join(base, "d")) // the directory has to be created again by every save
		if err := c.SaveManifest(db); err != nil {
			refused++
			continue
		}
		saved++
		l, err := config.LoadConfigFromManifest(db)
		switch {
		case err != nil:
			bad = "stored-manifest-does-not-load:" + cfgErrClass(err)
		case l.Validate() != nil:
			bad = "stored-manifest-invalid"
		}
	}
	close(stop)
	wg.Wait()
	if bad != "" {
		return fmt.Sprintf("saverace bad %s saved=%d refused=%d", bad, saved, refused)
	}
	return "saverace ok"
}

func genConfig(g *gen, n int, tier string, w *bufio.Writer) {
	infos := cfgFieldInfos()
	var ints, strs, floats []string
	for _, f := range infos {
		switch f.kind {
		case "int":
			ints = append(ints, f.name)
		case "str":
			strs = append(strs, f.name)
		case "float":
			floats = append(floats, f.name)
		}
	}
	tail := []string{"validate", "save", "load"}
	// ---- systematic part: every field at every boundary value, from the defaults
	for _, f := range ints {
		for _, v := range cfgIntBoundary {
			cfgCase(w, fmt.Sprintf("b-%s-%d", f, v), append([]string{"new", "defaults", fmt.Sprintf("set %s i:%d", f, v)}, tail...)...)
		}
	}
	for _, p := range [][2]int{{50, 49}, {50, 50}, {50, 51}, {1, 2}, {1, 1}, {98, 99}, {99, 100}, {99, 99}, {0, 1}, {99, 98}, {1, 99}} {
		cfgCase(w, fmt.Sprintf("b-thresholds-%d-%d", p[0], p[1]), append([]string{"new", "defaults",
			fmt.Sprintf("set TxWarningThreshold i:%d", p[0]), fmt.Sprintf("set TxCriticalThreshold i:%d", p[1])}, tail...)...)
	}
	for _, f := range strs {
		for _, s := range cfgStrSamples {
			cfgCase(w, fmt.Sprintf("b-%s-%s", f, s), append([]string{"new", "defaults", "set " + f + " s:" + s}, tail...)...)
		}
	}
	for _, f := range floats {
		for _, b := range cfgFloatSamples {
			cfgCase(w, fmt.Sprintf("b-%s-%016x", f, b), append([]string{"new", "defaults", fmt.Sprintf("set %s f:%016x", f, b)}, tail...)...)
		}
	}
	cfgCase(w, "b-saverace", "new", "saverace 200")
	cfgCase(w, "b-zero", "new", "zero", "show", "validate", "save", "load", "openengine", "load")
	cfgCase(w, "b-defaults", "new", "defaults", "show", "validate", "save", "load", "truncall", "load", "openengine", "load")
	cfgCase(w, "b-fresh-open", "new", "load", "openengine", "load", "truncall", "openengine", "trunc tail 1", "load", "openengine", "load")
	cfgCase(w, "b-resave", "new", "defaults", "save", "set MemTableSize i:777", "save", "load", "set MaxMemTables i:0", "save", "load", "unreadable", "load", "set MaxMemTables i:3", "save", "load", "openengine", "rmmanifest", "save", "load", "openengine")

	// ---- random part
	randInt := func() int64 {
		switch g.intn(4) {
		case 0:
			return cfgIntBoundary[g.intn(len(cfgIntBoundary))]
		case 1:
			return int64(g.intn(200)) - 50
		case 2:
			return int64(1) << uint(g.intn(62))
		}
		return int64(1 + g.intn(1000))
	}
	randSet := func() string {
		switch x := g.intn(10); {
		case x < 6 && len(ints) > 0:
			return fmt.Sprintf("set %s i:%d", ints[g.intn(len(ints))], randInt())
		case x < 8 && len(strs) > 0:
			s := cfgStrSamples[g.intn(len(cfgStrSamples))]
			if g.chance(1, 4) { // concatenation of two samples
				t := cfgStrSamples[g.intn(len(cfgStrSamples))]
				if s != "=" && t != "=" {
					s += t
				}
			}
			return "set " + strs[g.intn(len(strs))] + " s:" + s
		case len(floats) > 0:
			b := cfgFloatSamples[g.intn(len(cfgFloatSamples))]
			if g.chance(1, 3) {
				b = math.Float64bits(1 + float64(g.intn(2000))/1000*float64(g.pick(1, 1, 10, -1)))
			}
			return fmt.Sprintf("set %s f:%016x", floats[g.intn(len(floats))], b)
		}
		return "show"
	}
	damage := func() []string {
		switch g.intn(7) {
		case 0:
			return []string{fmt.Sprintf("trunc tail %d", 1+g.intn(3))}
		case 1:
			return []string{fmt.Sprintf("trunc tail %d", 1+g.intn(900))}
		case 2:
			return []string{fmt.Sprintf("trunc head %d", g.intn(900))}
		case 3:
			return []string{"garbage " + cfgGarbage[g.intn(len(cfgGarbage))]}
		case 4: // a manifest that decodes but violates a constraint
			bad := []string{"set MaxMemTables i:0", "set Version i:0", "set TxCriticalThreshold i:100", "set MemTableSize i:-1",
				"set CompactionRatio f:3ff0000000000000", "set WALDir s:=", "set TxWarningThreshold i:0", "set SSTableBlockSize i:0"}
			return []string{bad[g.intn(len(bad))], "plant"}
		case 5:
			return []string{"unreadable"}
		}
		return []string{"rmmanifest"}
	}
	for c := 0; c < n; c++ {
		var ls []string
		ls = append(ls, "new")
		switch x := g.intn(100); {
		case x < 22: // engine over a stored, sane, distinctive configuration; then damage; then reopen
			wd := cfgSaneDirs[g.intn(len(cfgSaneDirs))]
			sd := cfgSaneDirs[g.intn(len(cfgSaneDirs))]
			for sd == wd {
				sd = cfgSaneDirs[g.intn(len(cfgSaneDirs))]
			}
			ls = append(ls, "defaults", "set WALDir s:"+wd, "set SSTDir s:"+sd,
				fmt.Sprintf("set MemTableSize i:%d", 1000000+g.intn(9000000)),
				fmt.Sprintf("set MaxMemTables i:%d", 2+g.intn(5)),
				fmt.Sprintf("set TxWarningThreshold i:%d", 10+g.intn(60)))
			if g.chance(1, 2) {
				ls = append(ls, fmt.Sprintf("set CompactionRatio f:%016x", math.Float64bits(1.5+float64(g.intn(100))/8)))
			}
			ls = append(ls, "save", "openengine", "load")
			if g.chance(4, 5) {
				ls = append(ls, damage()...)
			}
			ls = append(ls, "load", "openengine", "load")
			if g.chance(1, 3) {
				ls = append(ls, "openengine")
			}
		case x < 27: // fresh directory: defaults are created, and kept
			ls = append(ls, "openengine", "load", "openengine")
			if g.chance(1, 2) {
				ls = append(ls, damage()...)
				ls = append(ls, "load", "openengine")
			}
		case x < 32: // every truncation
			ls = append(ls, "defaults")
			for i := g.intn(3); i > 0; i-- {
				ls = append(ls, fmt.Sprintf("set %s i:%d", ints[g.intn(len(ints))], 1+g.intn(90)))
			}
			ls = append(ls, "set WALDir s:"+cfgSaneDirs[g.intn(len(cfgSaneDirs))], "validate", "save", "truncall", "load")
		default: // validation / persistence of arbitrary assignments
			if g.chance(1, 12) {
				ls = append(ls, "zero")
			} else {
				ls = append(ls, "defaults")
			}
			for i := 1 + g.intn(4); i > 0; i-- {
				ls = append(ls, randSet())
			}
			ls = append(ls, "validate", "save", "load")
			if g.chance(1, 3) {
				ls = append(ls, randSet(), "validate", "save", "load")
			}
			if g.chance(1, 3) {
				ls = append(ls, damage()...)
				ls = append(ls, "load")
				if g.chance(1, 2) {
					ls = append(ls, "save", "load")
				}
			}
		}
		cfgCase(w, strconv.Itoa(c), ls...)
	}
}
