package main

// Component `power` (C02, C12, C20): power loss after every acknowledgement, reconstructed from the system calls.
//
//	cfg sync=<0|1|2> mem=<n>            configuration of the workload's engine
//	w <engine op…>                      append an operation to the workload (put/del/tx/flush/reopen)
//	power                               run the workload once in a child process under strace (write, fsync, rename,
//	                                    unlink, ftruncate, open per file, plus one marker write per acknowledgement);
//	                                    for every acknowledgement a: rebuild the directory a power failure right after
//	                                    it is GUARANTEED to leave — every file cut to the bytes that had been fsync'ed
//	                                    (unsynced bytes may or may not survive; the minimal survivor is the adversary) —
//	                                    reopen it with the real engine and report the recovered state.
//
// Output: power <n> <flags|-> a:<synced length of every log file, comma separated>:<digest> ...
// flags: rename-unsynced:<file> (a file was renamed into place while part of its data had not been synced).
//
// Trust: strace's rendering of the system calls; directory operations (create, rename, unlink) are taken as durable and
// ordered (kevo never syncs a directory; out of scope here); a write that was fsync'ed is durable, everything else is lost.

import (
	"bufio"
	"bytes"
	"fmt"
	"os"
	"os/exec"
	"path/filepath"
	"regexp"
	"sort"
	"strconv"
	"strings"
	"time"

	"github.com/KevoDB/kevo/pkg/engine"
	"github.com/KevoDB/kevo/pkg/wal"
)

func init() {
	components["power"] = &component{gen: genPower, run: runPower}
}

func genPower(g *gen, n int, tier string, w *bufio.Writer) {
	c0 := g.intn(1 << 20)
	for c := 0; c < n; c++ {
		sync := g.pick(2, 2, 2, 2, 1, 0)
		mem := g.pick(150, 400, 4096, 1<<20)
		big := (c+c0)%5 == 3
		fmt.Fprintf(w, "# case %d\n", c)
		fmt.Fprintf(w, "cfg sync=%d mem=%d\n", sync, mem)
		steps := 3 + g.intn(8)
		for s := 0; s < steps; s++ {
			val := func() []byte {
				if big && g.chance(1, 3) {
					return g.bytesN(20000 + g.intn(60000))
				}
				return g.bytesN(g.pick(0, 1, 5, 30, 120, 700))
			}
			switch x := g.intn(100); {
			case x < 45:
				fmt.Fprintln(w, join("w", "put", hx(g.engKey()), hx(val())))
			case x < 55:
				fmt.Fprintln(w, join("w", "del", hx(g.engKey())))
			case x < 78:
				m := 1 + g.intn(4)
				parts := []string{"w", "tx", strconv.Itoa(m)}
				for i := 0; i < m; i++ {
					if g.chance(1, 4) {
						parts = append(parts, "d", hx(g.engKey()), "=")
					} else {
						parts = append(parts, "p", hx(g.engKey()), hx(g.bytesN(g.pick(0, 1, 5, 30, 120, 700))))
					}
				}
				fmt.Fprintln(w, strings.Join(parts, " "))
			case x < 90:
				fmt.Fprintln(w, "w flush")
			default:
				fmt.Fprintln(w, "w reopen")
			}
		}
		fmt.Fprintln(w, "power")
	}
}

// ---------- trace parsing ----------

type plFile struct {
	id      int
	written int64
	synced  int64
}

type plSnap struct {
	files map[string]plFile // path -> state at the acknowledgement
}

var (
	reLine    = regexp.MustCompile(`^(\d+)\s+(.*)$`)
	reResumed = regexp.MustCompile(`^<\.\.\. (\w+) resumed>(.*)$`)
	reFdPath  = regexp.MustCompile(`^\d+<([^>]*)>`)
	reRet     = regexp.MustCompile(`\)\s*=\s*(-?\d+)`)
	reQuoted  = regexp.MustCompile(`"((?:[^"\\]|\\.)*)"`)
)

type plTrace struct {
	dir      string
	ackPath  string
	cur      map[string]*plFile
	nextID   int
	finalOf  map[int]string // id -> path at the end ("" = unlinked)
	snaps    []plSnap
	flags    []string
	problems []string
}

func (t *plTrace) under(p string) bool { return strings.HasPrefix(p, t.dir+"/") }

func (t *plTrace) get(p string) *plFile {
	f := t.cur[p]
	if f == nil {
		t.nextID++
		f = &plFile{id: t.nextID}
		t.cur[p] = f
		t.finalOf[f.id] = p
	}
	return f
}

func (t *plTrace) call(name, args string) {
	ret := int64(-1)
	if m := reRet.FindStringSubmatch(args); m != nil {
		ret, _ = strconv.ParseInt(m[1], 10, 64)
	}
	fdPath := ""
	if m := reFdPath.FindStringSubmatch(args); m != nil {
		fdPath = m[1]
	}
	switch name {
	case "write", "pwrite64":
		if ret <= 0 {
			return
		}
		if fdPath == t.ackPath {
			s := plSnap{files: map[string]plFile{}}
			for p, f := range t.cur {
				s.files[p] = *f
			}
			t.snaps = append(t.snaps, s)
			return
		}
		if t.under(fdPath) {
			if name == "pwrite64" {
				t.problems = append(t.problems, "pwrite64-not-modelled:"+filepath.Base(fdPath))
			}
			t.get(fdPath).written += ret
		}
	case "fsync", "fdatasync":
		if ret == 0 && t.under(fdPath) {
			f := t.get(fdPath)
			f.synced = f.written
		}
	case "ftruncate":
		if ret == 0 && t.under(fdPath) {
			parts := strings.Split(args, ",")
			if len(parts) >= 2 {
				n, _ := strconv.ParseInt(strings.TrimSpace(strings.Split(parts[1], ")")[0]), 10, 64)
				f := t.get(fdPath)
				f.written = n
				if f.synced > n {
					f.synced = n
				}
			}
		}
	case "openat":
		if ret < 0 {
			return
		}
		q := reQuoted.FindAllStringSubmatch(args, -1)
		if len(q) == 0 {
			return
		}
		p := q[0][1]
		if !t.under(p) {
			return
		}
		if strings.Contains(args, "O_DIRECTORY") {
			return
		}
		if fi, err := os.Stat(p); err == nil && fi.IsDir() {
			return
		}
		if strings.Contains(args, "O_TRUNC") {
			f := t.get(p)
			f.written, f.synced = 0, 0
		} else if strings.Contains(args, "O_CREAT") {
			t.get(p)
		}
	case "rename", "renameat", "renameat2":
		if ret != 0 {
			return
		}
		q := reQuoted.FindAllStringSubmatch(args, -1)
		if len(q) < 2 {
			return
		}
		a, b := q[0][1], q[1][1]
		if !t.under(a) && !t.under(b) {
			return
		}
		if f := t.cur[a]; f != nil {
			if f.synced < f.written {
				t.flags = append(t.flags, "rename-unsynced:"+plCanon(filepath.Base(b)))
			}
			if old := t.cur[b]; old != nil {
				t.finalOf[old.id] = ""
			}
			delete(t.cur, a)
			t.cur[b] = f
			t.finalOf[f.id] = b
		}
	case "unlink", "unlinkat":
		if ret != 0 {
			return
		}
		q := reQuoted.FindAllStringSubmatch(args, -1)
		if len(q) == 0 {
			return
		}
		p := q[0][1]
		if f := t.cur[p]; f != nil {
			t.finalOf[f.id] = ""
			delete(t.cur, p)
		}
	}
}

// plCanon: file names carry time stamps; keep the kind only
func plCanon(name string) string {
	switch {
	case strings.HasSuffix(name, ".sst"):
		return "sst"
	case strings.HasSuffix(name, ".wal"):
		return "wal"
	}
	return name
}

func parsePowerTrace(tracePath, dir, ackPath string) (*plTrace, error) {
	fh, err := os.Open(tracePath)
	if err != nil {
		return nil, err
	}
	defer fh.Close()
	t := &plTrace{dir: dir, ackPath: ackPath, cur: map[string]*plFile{}, finalOf: map[int]string{}}
	pending := map[string]string{} // pid -> "name(args" of an unfinished call
	sc := bufio.NewScanner(fh)
	sc.Buffer(make([]byte, 1<<20), 1<<28)
	for sc.Scan() {
		m := reLine.FindStringSubmatch(sc.Text())
		if m == nil {
			continue
		}
		pid, rest := m[1], m[2]
		if strings.HasSuffix(rest, "<unfinished ...>") {
			pending[pid] = strings.TrimSuffix(rest, "<unfinished ...>")
			continue
		}
		if r := reResumed.FindStringSubmatch(rest); r != nil {
			rest = pending[pid] + r[2]
			delete(pending, pid)
		}
		i := strings.IndexByte(rest, '(')
		if i <= 0 {
			continue
		}
		t.call(rest[:i], rest[i+1:])
	}
	return t, sc.Err()
}

// ---------- the run ----------

type powerRun struct {
	r        *runner
	sync     int
	mem      int
	workload []string
}

func copyTruncated(src, dst string, n int64) error {
	b, err := os.ReadFile(src)
	if err != nil {
		return err
	}
	if int64(len(b)) < n {
		return fmt.Errorf("final file shorter than its synced length")
	}
	if err := os.MkdirAll(filepath.Dir(dst), 0o755); err != nil {
		return err
	}
	return os.WriteFile(dst, b[:n], 0o644)
}

func powerDigest(dir string) (res string) {
	defer func() {
		if p := recover(); p != nil {
			res = "panic:" + strings.ReplaceAll(fmt.Sprint(p), " ", "_")
		}
	}()
	e, err := engine.NewEngineFacade(dir)
	if err != nil {
		return "openerr:" + errTok(err)
	}
	d := stateDigest(e)
	if m, _ := filepath.Glob(filepath.Join(dir, "wal", "backup_*")); len(m) > 0 {
		d += "+backup"
	}
	e.Close()
	return d
}

func (c *powerRun) power() string {
	base := c.r.tempDir()
	dir := filepath.Join(base, "db")
	os.MkdirAll(dir, 0o755)
	ackPath := filepath.Join(base, "acks")
	tracePath := filepath.Join(base, "trace")
	cmd := exec.Command("strace", "-f", "-qq", "-y", "-s", "0", "-e",
		"trace=openat,write,pwrite64,fsync,fdatasync,rename,renameat,renameat2,unlink,unlinkat,ftruncate",
		"-o", tracePath, os.Args[0], "crashchild", "run")
	cmd.Env = append(os.Environ(), "VERIF_CRASH_AT=0", "VERIF_CRASH_DIR="+dir, "VERIF_ACK_FILE="+ackPath,
		fmt.Sprintf("VERIF_CRASH_CFG=%d,%d", c.sync, c.mem))
	cmd.Stdin = strings.NewReader(strings.Join(c.workload, "\n") + "\n")
	var out bytes.Buffer
	cmd.Stdout = &out
	cmd.Stderr = &out
	done := make(chan error, 1)
	if err := cmd.Start(); err != nil {
		return "power unavailable " + strings.ReplaceAll(err.Error(), " ", "_")
	}
	go func() { done <- cmd.Wait() }()
	select {
	case <-done:
	case <-time.After(patience(120 * time.Second)):
		cmd.Process.Kill()
		<-done
		return "power timeout"
	}
	if cmd.ProcessState.ExitCode() != 0 {
		return fmt.Sprintf("power childerr rc=%d %s", cmd.ProcessState.ExitCode(), strings.ReplaceAll(strings.TrimSpace(lastN(out.String(), 200)), "\n", "|"))
	}
	t, err := parsePowerTrace(tracePath, dir, ackPath)
	if err != nil {
		return "power traceerr " + strings.ReplaceAll(err.Error(), " ", "_")
	}
	// the stored configuration names its directories by absolute path: keep the finished run aside and rebuild every
	// power-loss image at the ORIGINAL location
	final := dir + ".final"
	if err := os.Rename(dir, final); err != nil {
		return "power renameerr"
	}
	var parts []string
	for a, s := range t.snaps {
		d2 := dir
		var wals []string
		for p := range s.files {
			if strings.HasSuffix(p, ".wal") {
				wals = append(wals, p)
			}
		}
		sort.Strings(wals)
		var lens []string
		for _, p := range wals {
			lens = append(lens, strconv.FormatInt(s.files[p].synced, 10))
		}
		status := ""
		for p, f := range s.files {
			fin := t.finalOf[f.id]
			if fin == "" {
				status = "unknown-content" // the file was removed later in the run: its bytes are gone
				break
			}
			rel, _ := filepath.Rel(dir, p)
			frel, _ := filepath.Rel(dir, fin)
			if err := copyTruncated(filepath.Join(final, frel), filepath.Join(d2, rel), f.synced); err != nil {
				status = "copyerr"
				break
			}
		}
		os.MkdirAll(filepath.Join(d2, "wal"), 0o755)
		os.MkdirAll(filepath.Join(d2, "sst"), 0o755)
		if status == "" {
			status = powerDigest(d2)
		}
		os.RemoveAll(d2)
		parts = append(parts, fmt.Sprintf("%d:%s:%s", a+1, strings.Join(lens, ","), status))
	}
	flags := "-"
	fl := append(append([]string{}, t.flags...), t.problems...)
	if len(fl) > 0 {
		sort.Strings(fl)
		var u []string
		for i, f := range fl {
			if i == 0 || fl[i-1] != f {
				u = append(u, f)
			}
		}
		flags = strings.Join(u, ",")
	}
	os.RemoveAll(base)
	return fmt.Sprintf("power %d %s %s", len(parts), flags, strings.Join(parts, " "))
}

func lastN(s string, n int) string {
	if len(s) > n {
		return s[len(s)-n:]
	}
	return s
}

func runPower(r *runner) {
	wal.DisableRecoveryLogs = true
	c := &powerRun{r: r}
	for {
		ws, ok := r.next()
		if !ok {
			break
		}
		switch ws[0] {
		case "cfg":
			c.workload = nil
			c.sync, _ = strconv.Atoi(strings.TrimPrefix(ws[1], "sync="))
			c.mem, _ = strconv.Atoi(strings.TrimPrefix(ws[2], "mem="))
			r.emit("ok")
		case "w":
			c.workload = append(c.workload, strings.Join(ws[1:], " "))
			r.emit("ok")
		case "power":
			r.emit(c.power())
		default:
			r.emit("bad-op")
		}
	}
}
