package main

// component `applier` (C13): drives the REAL replication.WALBatchApplier with the real entry serialisation
// (WALEntryToProto / SerializeWALEntry / DeserializeWALEntry), the real CompressionManager, the real
// Primary selection (GetEntriesFrom + 100-entry limit, reached through NegativeAcknowledge on a fake stream)
// and, for sink `eng`, the real EngineApplier on a real read-only engine in a temp dir.
//
// Replica.processEntries* / handleAcknowledgingState / handleSequenceGap are unexported and tied to a gRPC
// connection; `receive` and `ack` below mirror them line by line (pinned by extract/extract_applier.go).
//
// script (one case = `# case <i> <kind>` + header + ops):
//   log <start> <sink> <n> {<seq> <op> <key> <val>}*n   primary log L; new applier NewWALBatchApplier(start); sink rec|eng
//   deliver <n> {idx}*n          one stream message built from L[idx] through the real serialiser
//   deliverz <codec> <n> {idx}   same, payloads compressed with the real CompressionManager (1 zstd, 2 snappy)
//   deliverbad <n> {idx}         same, flagged Compressed/ZSTD but NOT compressed (what Primary's push path sends: D31)
//   apply <n> {idx}*n            ApplyEntries called directly (no replica wrapper)
//   raw <n> {<seq> <payload>}*n  arbitrary wire entries
//   poll next|ack                the real primary's selection from expectedNext | lastAck+1, delivered
//   select <from>                the real primary's selection (not delivered)
//   ack                          the acknowledging step of the replica
//   reconnect                    a new stream: the replica keeps its applier (prints the requested start)
//   reset <seq>                  WALBatchApplier.Reset(seq)
//   failapply <idx>              the apply callback fails once when handed the entry L[idx]
//   counters | applied | state
//   ser <seq> <op> <key> <val> | deser <payload>

import (
	"bufio"
	"bytes"
	"context"
	"encoding/binary"
	"fmt"
	"strconv"
	"strings"
	"sync"
	"time"

	klog "github.com/KevoDB/kevo/pkg/common/log"
	"github.com/KevoDB/kevo/pkg/config"
	"github.com/KevoDB/kevo/pkg/engine"
	"github.com/KevoDB/kevo/pkg/replication"
	"github.com/KevoDB/kevo/pkg/wal"
	rproto "github.com/KevoDB/kevo/proto/kevo/replication"
	"google.golang.org/grpc/metadata"
)

func init() {
	components["applier"] = &component{gen: genApplier, run: runApplier}
}

// =====================================================================================================
// generator
// =====================================================================================================

type apEntry struct {
	seq uint64
	op  int
	k   []byte
	v   []byte
}

func (g *gen) apVal() []byte {
	switch c := g.intn(100); {
	case c < 12:
		return []byte{}
	case c < 80:
		return g.bytesN(1 + g.intn(6))
	default:
		return g.bytesN(10 + g.intn(60))
	}
}

// genLog: n entries numbered from first; shared>0: about that many percent of the positions start a
// transaction (2..maxGroup entries sharing one number)
func (g *gen) apLog(n int, first uint64, shared int, maxGroup int, engine bool) []apEntry {
	var L []apEntry
	seq := first
	for len(L) < n {
		grp := 1
		if shared > 0 && g.intn(100) < shared {
			grp = 2 + g.intn(maxGroup-1)
		}
		for j := 0; j < grp && len(L) < n; j++ {
			op := g.pick(1, 1, 1, 1, 2, 3)
			var k []byte
			if engine {
				k = g.engKey()
			} else {
				k = g.key()
				if g.chance(1, 40) {
					k = []byte{}
				}
			}
			v := g.apVal()
			if op == 2 {
				v = []byte{}
			}
			L = append(L, apEntry{seq, op, k, v})
		}
		seq++
	}
	return L
}

// the generator's own rendering of the wire payload (input material only; the run uses the real serialiser,
// which prints to stdout and therefore cannot be called while generating)
func apPayload(seq uint64, op int, k, v []byte) []byte {
	b := []byte{byte(op)}
	b = binary.LittleEndian.AppendUint64(b, seq)
	b = binary.LittleEndian.AppendUint32(b, uint32(len(k)))
	b = append(b, k...)
	if op != 2 {
		b = binary.LittleEndian.AppendUint32(b, uint32(len(v)))
		b = append(b, v...)
	}
	return b
}

func apLogLine(start uint64, sink string, L []apEntry) string {
	parts := []string{"log", strconv.FormatUint(start, 10), sink, strconv.Itoa(len(L))}
	for _, e := range L {
		parts = append(parts, strconv.FormatUint(e.seq, 10), strconv.Itoa(e.op), hx(e.k), hx(e.v))
	}
	return strings.Join(parts, " ")
}

func apIdxLine(op string, lo, hi int) string {
	parts := []string{op, strconv.Itoa(hi - lo)}
	for i := lo; i < hi; i++ {
		parts = append(parts, strconv.Itoa(i))
	}
	return strings.Join(parts, " ")
}

func apIdxList(op string, idx []int) string {
	parts := []string{op, strconv.Itoa(len(idx))}
	for _, i := range idx {
		parts = append(parts, strconv.Itoa(i))
	}
	return strings.Join(parts, " ")
}

// schedule of contiguous messages (what a sender that batches consecutive log entries produces) under an
// adversarial network: duplicates, overlaps, reordering, drops, gaps, empty messages, polls, reconnects.
// `exp` is the generator's guess of the replica position (exact for logs without shared numbers).
func (g *gen) apSchedule(w *bufio.Writer, L []apEntry, startIdx int, steps int, bigBatches bool, engine bool) {
	n := len(L)
	exp := startIdx // index the replica is expected to need next
	pos := startIdx // index the sender will push next
	type rng struct{ lo, hi int }
	var sent []rng
	size := func() int {
		if bigBatches && g.chance(1, 6) {
			return 90 + g.intn(40)
		}
		if g.chance(1, 8) {
			return 8 + g.intn(20)
		}
		return 1 + g.intn(6)
	}
	clip := func(lo, hi int) (int, int) {
		if lo < 0 {
			lo = 0
		}
		if hi > n {
			hi = n
		}
		if lo > hi {
			lo = hi
		}
		return lo, hi
	}
	send := func(lo, hi int) {
		lo, hi = clip(lo, hi)
		if lo == hi && g.chance(4, 5) { // nothing left to send at that position
			return
		}
		op := "deliver"
		if g.chance(1, 12) {
			op = "deliverz " + strconv.Itoa(g.pick(1, 2))
		}
		if g.chance(1, 40) { // a pushed batch as the primary flags it (D31): undecodable, nothing may be applied
			fmt.Fprintln(w, apIdxLine("deliverbad", lo, hi))
			return
		}
		fmt.Fprintln(w, apIdxLine(op, lo, hi))
		sent = append(sent, rng{lo, hi})
		if lo == exp && hi > lo {
			exp = hi
		}
	}
	poll := func() {
		fmt.Fprintln(w, "poll "+[]string{"next", "next", "ack"}[g.intn(3)])
		if exp < n {
			exp += 100
			if exp > n {
				exp = n
			}
		}
		if pos < exp {
			pos = exp
		}
	}
	for s := 0; s < steps; s++ {
		if exp >= n && pos >= n && g.chance(1, 2) { // everything delivered: a few stragglers at most
			break
		}
		switch c := g.intn(100); {
		case c < 52: // the next batch, in order
			k := size()
			send(pos, pos+k)
			pos += k
			if pos > n {
				pos = n
			}
		case c < 60: // duplicate of an earlier message
			if len(sent) > 0 {
				r := sent[g.intn(len(sent))]
				send(r.lo, r.hi)
			}
		case c < 66: // overlap: starts before the position, extends beyond it
			send(pos-1-g.intn(4), pos+g.intn(5))
		case c < 72: // reordering: two consecutive batches swapped
			a, b := size(), size()
			send(pos+a, pos+a+b)
			send(pos, pos+a)
			pos += a // the second one was rejected; the sender believes it was delivered
			if g.chance(1, 2) {
				pos += b
			}
			if pos > n {
				pos = n
			}
		case c < 77: // drop: a batch is lost
			pos += size()
			if pos > n {
				pos = n
			}
		case c < 81: // gap: a batch from the future
			j := pos + 1 + g.intn(5)
			send(j, j+size())
		case c < 84:
			fmt.Fprintln(w, "deliver 0")
		case c < 90:
			poll()
		case c < 93:
			fmt.Fprintln(w, "reconnect")
			poll()
		case c < 96:
			fmt.Fprintln(w, "ack")
		case c < 98:
			fmt.Fprintln(w, "counters")
		default: // retransmission from the replica's position
			send(exp, exp+size())
			pos = exp
		}
		if engine && g.chance(1, 4) {
			fmt.Fprintln(w, "state")
		}
	}
	if g.chance(2, 3) {
		poll()
		if g.chance(1, 2) {
			poll()
		}
	}
	fmt.Fprintln(w, "ack")
	fmt.Fprintln(w, "counters")
	if engine {
		fmt.Fprintln(w, "state")
	}
	fmt.Fprintln(w, "applied")
}

func genApplier(g *gen, n int, tier string, w *bufio.Writer) {
	for c := 0; c < n; c++ {
		kind := "valid"
		switch x := c % 20; {
		case x == 3 || x == 13:
			kind = "shared" // MINORITY (10%): logs containing transactions (entries sharing one number) -> KF-C13-shared-seq
		case x == 7:
			kind = "faults" // MINORITY (5%): apply errors, undecodable entries, non-contiguous messages -> KF-C13-partial-batch
		case x == 17:
			kind = "api" // direct ApplyEntries calls and the Reset API (a Reset starts a new segment for the oracle)
		case x == 5:
			kind = "cut" // long logs, batches and polls at the 100-entry limit, no shared numbers
		case x == 9:
			kind = "engine" // real EngineApplier on a real read-only engine
		case x == 11:
			kind = "codec"
		}
		if c%200 == 50 && (tier == "thorough" || g.chance(1, 3)) {
			kind = "bigsel" // RARE: a backlog whose key+value bytes exceed the response byte cap (8 MiB): the selection is cut by bytes
		}
		fmt.Fprintf(w, "# case %d %s\n", c, kind)
		switch kind {
		case "bigsel":
			nlog := 9 + g.intn(8)
			parts := []string{"log", "0", "rec", strconv.Itoa(nlog)}
			for i := 0; i < nlog; i++ {
				sz := 700000 + g.intn(900000)
				if g.chance(1, 5) {
					sz = g.intn(2000)
				}
				if i == 0 && g.chance(1, 4) {
					sz = 9000000 + g.intn(500000) // the first entry alone exceeds the cap: it must still be sent
				}
				parts = append(parts, strconv.Itoa(i+1), "1", hx([]byte(fmt.Sprintf("big%02d", i))), fmt.Sprintf("*%d:%02x", sz, 0x41+i))
			}
			fmt.Fprintln(w, strings.Join(parts, " "))
			fmt.Fprintln(w, "select 1")
			for r := 0; r < 4; r++ {
				fmt.Fprintln(w, g.pickS("poll exp", "poll ack", "poll exp"))
				fmt.Fprintln(w, "ack")
				if g.chance(1, 3) {
					fmt.Fprintf(w, "select %d\n", 1+g.intn(nlog))
				}
			}
			fmt.Fprintln(w, "counters")
		case "valid", "cut", "engine":
			nlog := 5 + g.intn(40)
			steps := 6 + g.intn(22)
			if kind == "cut" {
				nlog = 101 + g.intn(160)
				steps = 4 + g.intn(10)
			}
			if kind == "engine" {
				nlog = 4 + g.intn(25)
				steps = 4 + g.intn(12)
			}
			first := uint64(1)
			if g.chance(1, 5) {
				first = uint64(2 + g.intn(50))
			}
			L := g.apLog(nlog, first, 0, 0, kind == "engine")
			// replica start: usually just before the log, sometimes in the middle, rarely beyond / before it
			start := first - 1
			switch x := g.intn(20); {
			case x < 4:
				start = first - 1 + uint64(g.intn(nlog))
			case x == 4:
				start = first - 1 + uint64(nlog+g.intn(3))
			case x == 5 && first > 2:
				start = first - 2
			}
			sink := "rec"
			if kind == "engine" {
				sink = "eng"
			}
			fmt.Fprintln(w, apLogLine(start, sink, L))
			startIdx := int(start + 1 - first)
			if start+1 < first {
				startIdx = 0
			}
			g.apSchedule(w, L, startIdx, steps, kind == "cut", kind == "engine")
		case "shared":
			nlog := 5 + g.intn(40)
			maxGroup := 4
			if g.chance(1, 3) { // a transaction crossing the 100-entry poll limit
				nlog = 100 + g.intn(60)
				maxGroup = 6
			}
			L := g.apLog(nlog, 1, 8+g.intn(25), maxGroup, false)
			fmt.Fprintln(w, apLogLine(0, "rec", L))
			g.apSchedule(w, L, 0, 5+g.intn(15), nlog > 100, false)
		case "faults", "api":
			api := kind == "api"
			nlog := 5 + g.intn(30)
			L := g.apLog(nlog, 1, 0, 0, false)
			badOp := !api && g.chance(1, 4)
			if badOp { // an operation type the deserialiser rejects (such a log cannot be written through the real WAL: no poll)
				L[g.intn(nlog)].op = g.pick(0, 4, 9, 255)
			}
			start := uint64(0)
			if g.chance(1, 4) {
				start = uint64(g.intn(nlog))
			}
			fmt.Fprintln(w, apLogLine(start, "rec", L))
			pos := int(start)
			steps := 6 + g.intn(20)
			for s := 0; s < steps; s++ {
				x := g.intn(100)
				if api && x >= 35 && x < 65 { // no injected failures, no holes in api cases
					x = g.pick(10, 68, 76, 90)
				}
				if !api && x >= 65 && x < 78 {
					x = g.pick(10, 40, 60)
				}
				switch {
				case x < 35:
					k := 1 + g.intn(6)
					lo, hi := pos, pos+k
					if hi > nlog {
						hi = nlog
					}
					if lo > hi {
						lo = hi
					}
					fmt.Fprintln(w, apIdxLine("deliver", lo, hi))
					if g.chance(4, 5) {
						pos = hi
					}
				case x < 50:
					fmt.Fprintln(w, "failapply "+strconv.Itoa(g.intn(nlog)))
				case x < 65: // arbitrary index list (not contiguous): holes, reversals, repeats
					k := 1 + g.intn(6)
					idx := make([]int, k)
					base := pos - g.intn(2)
					if base < 0 {
						base = 0
					}
					for i := range idx {
						idx[i] = base + i
						if g.chance(1, 4) {
							idx[i] = g.intn(nlog)
						}
						if idx[i] >= nlog {
							idx[i] = nlog - 1
						}
					}
					fmt.Fprintln(w, apIdxList("deliver", idx))
				case x < 72:
					k := g.intn(4)
					lo, hi := pos, pos+k
					if hi > nlog {
						hi = nlog
					}
					if lo > hi {
						lo = hi
					}
					fmt.Fprintln(w, apIdxLine("apply", lo, hi))
					if hi > lo {
						pos = hi
					}
				case x < 78: // the Reset API (never called by the replica itself)
					to := pos - 3 + g.intn(7)
					if to < 0 || g.chance(1, 6) {
						to = 0
					}
					fmt.Fprintln(w, "reset "+strconv.Itoa(to))
					pos = to
				case x < 92:
					if badOp {
						fmt.Fprintln(w, "counters")
					} else {
						fmt.Fprintln(w, "poll next")
					}
				case x < 96:
					fmt.Fprintln(w, "ack")
				default:
					fmt.Fprintln(w, "counters")
				}
			}
			fmt.Fprintln(w, "ack")
			fmt.Fprintln(w, "counters")
			fmt.Fprintln(w, "applied")
		case "codec":
			L := g.apLog(6, 1, 0, 0, false)
			fmt.Fprintln(w, apLogLine(0, "rec", L))
			for s := 0; s < 12; s++ {
				if g.chance(1, 4) {
					// wire entries whose sequence field / payload are not genuine: the applier orders by the envelope
					// number and hands over whatever the payload holds
					pl := apPayload(uint64(g.intn(9)), g.pick(1, 2, 3, 7), g.key(), g.apVal())
					if g.chance(1, 3) {
						pl = pl[:g.intn(len(pl))]
					}
					fmt.Fprintln(w, join("raw", "1", strconv.Itoa(1+g.intn(4)), hx(pl)))
					continue
				}
				if g.chance(1, 8) {
					fmt.Fprintln(w, apIdxLine("deliver", 0, 1+g.intn(6)))
					continue
				}
				op := g.pick(1, 1, 1, 2, 2, 3, 0, 4, 255)
				seq := uint64(g.intn(1000))
				switch g.intn(6) {
				case 0:
					seq = ^uint64(0) - uint64(g.intn(2))
				case 1:
					seq = uint64(1)<<uint(8*g.intn(8)) - uint64(g.intn(2))
				}
				k := g.key()
				if g.chance(1, 8) {
					k = []byte{}
				}
				v := g.apVal()
				if g.chance(1, 10) {
					v = g.bytesN(255 + g.intn(3))
				}
				fmt.Fprintln(w, join("ser", strconv.FormatUint(seq, 10), strconv.Itoa(op), hx(k), hx(v)))
				pl := apPayload(seq, op, k, v)
				switch g.intn(8) {
				case 0: // truncated
					pl = pl[:g.intn(len(pl)+1)]
				case 1: // trailing bytes
					pl = append(pl, g.bytesN(1+g.intn(4))...)
				case 2: // key length beyond the payload / beyond the sanity limit
					if len(pl) >= 13 {
						x := uint32(g.pick(len(pl)-13, len(pl)-12, 1<<20, 1<<20+1, 1<<31, 1<<32-1))
						pl[9], pl[10], pl[11], pl[12] = byte(x), byte(x>>8), byte(x>>16), byte(x>>24)
					}
				case 3: // value length beyond the payload / the sanity limit
					off := 13 + len(k)
					if op != 2 && len(pl) >= off+4 {
						x := uint32(g.pick(len(v)+1, len(v)-1, 10<<20, 10<<20+1, 1<<32-1))
						pl[off], pl[off+1], pl[off+2], pl[off+3] = byte(x), byte(x>>8), byte(x>>16), byte(x>>24)
					}
				}
				fmt.Fprintln(w, join("deser", hx(pl)))
			}
			fmt.Fprintln(w, "counters")
		}
	}
	if tier == "thorough" {
		// fixed boundary case: a genuine key at the 1 MiB sanity limit of DeserializeWALEntry and one byte beyond
		fmt.Fprintln(w, "# case limits codec")
		fmt.Fprintln(w, apLogLine(0, "rec", nil))
		for _, kl := range []int{1 << 20, 1<<20 + 1} {
			pl := apPayload(7, 2, bytes.Repeat([]byte{'k'}, kl), nil)
			fmt.Fprintln(w, join("deser", hx(pl)))
		}
	}
	// fixed case: the sender rule at the 100-entry limit with a 2-entry transaction across it (D29)
	fmt.Fprintln(w, "# case cut100 shared")
	var L []apEntry
	for i := 1; i <= 99; i++ {
		L = append(L, apEntry{uint64(i), 1, []byte("k"), []byte{byte(i)}})
	}
	L = append(L, apEntry{100, 1, []byte("t1"), []byte("a")}, apEntry{100, 1, []byte("t2"), []byte("b")}, apEntry{101, 1, []byte("z"), []byte("c")})
	fmt.Fprintln(w, apLogLine(0, "rec", L))
	fmt.Fprintln(w, "poll next")
	fmt.Fprintln(w, "ack")
	fmt.Fprintln(w, "poll ack")
	fmt.Fprintln(w, "counters")
	fmt.Fprintln(w, "applied")
}

// =====================================================================================================
// executor
// =====================================================================================================

type apFakeStream struct {
	ctx    context.Context
	mu     sync.Mutex
	header chan metadata.MD
	msgs   []*rproto.WALStreamResponse
}

func (s *apFakeStream) Send(m *rproto.WALStreamResponse) error {
	s.mu.Lock()
	s.msgs = append(s.msgs, m)
	s.mu.Unlock()
	return nil
}
func (s *apFakeStream) SetHeader(metadata.MD) error { return nil }
func (s *apFakeStream) SendHeader(md metadata.MD) error {
	select {
	case s.header <- md:
	default:
	}
	return nil
}
func (s *apFakeStream) SetTrailer(metadata.MD)   {}
func (s *apFakeStream) Context() context.Context { return s.ctx }
func (s *apFakeStream) SendMsg(m any) error      { return nil }
func (s *apFakeStream) RecvMsg(m any) error      { return nil }
func (s *apFakeStream) take() []*rproto.WALStreamResponse {
	s.mu.Lock()
	defer s.mu.Unlock()
	m := s.msgs
	s.msgs = nil
	return m
}

type applierRun struct {
	r           *runner
	L           []*wal.Entry
	a           *replication.WALBatchApplier
	lastApplied uint64 // Replica.lastAppliedSeq
	comp        *replication.CompressionManager
	applied     []*wal.Entry
	failAt      []int
	sink        string
	eng         *engine.EngineFacade
	engApplier  *replication.EngineApplier
	// the real primary (built on first use)
	w       *wal.WAL
	prim    *replication.Primary
	stream  *apFakeStream
	cancel  context.CancelFunc
	session string
	primErr string
	done    chan struct{}
}

func apSameEntry(a, b *wal.Entry) bool {
	if a.SequenceNumber != b.SequenceNumber || a.Type != b.Type || !bytes.Equal(a.Key, b.Key) {
		return false
	}
	if a.Type == wal.OpTypeDelete {
		return true
	}
	return bytes.Equal(a.Value, b.Value)
}

// the apply callback handed to ApplyEntries (Replica.applyEntry -> WALEntryApplier.Apply)
func (x *applierRun) applyEntry(e *wal.Entry) error {
	for i, idx := range x.failAt {
		if idx < len(x.L) && apSameEntry(x.L[idx], e) {
			x.failAt = append(x.failAt[:i], x.failAt[i+1:]...)
			return fmt.Errorf("injected apply failure")
		}
	}
	if x.engApplier != nil {
		if err := x.engApplier.Apply(e); err != nil {
			return err
		}
	}
	x.applied = append(x.applied, e)
	return nil
}

func (x *applierRun) counters() string {
	return fmt.Sprintf("%d %d %d %d %d", x.a.GetExpectedNext(), x.a.GetMaxApplied(), x.a.GetLastAcknowledged(), x.lastApplied, len(x.applied))
}

func apClassify(err error, hasGap bool) string {
	msg := err.Error()
	switch {
	case hasGap && strings.Contains(msg, "within batch"):
		return "gapin"
	case hasGap:
		return "gap"
	case strings.Contains(msg, "failed to deserialize"):
		return "err deser"
	case strings.Contains(msg, "failed to apply"):
		return "err apply"
	}
	return "err other:" + strings.ReplaceAll(msg, " ", "_")
}

// receive mirrors Replica.handleStreamingState (empty batch) + processEntriesWithoutStateTransitions
func (x *applierRun) receive(resp *rproto.WALStreamResponse) string {
	entries := resp.Entries
	if len(entries) == 0 {
		return "empty"
	}
	if resp.Compressed && len(entries) > 0 {
		for i, entry := range entries {
			if len(entry.Payload) > 0 {
				d, err := x.comp.Decompress(entry.Payload, resp.Codec)
				if err != nil {
					return "err decompress"
				}
				entries[i].Payload = d
			}
		}
	}
	maxSeq, hasGap, err := x.a.ApplyEntries(entries, x.applyEntry)
	if err != nil {
		if hasGap {
			// handleSequenceGap: Nack{MissingFromSequence: r.batchApplier.GetExpectedNext()}
			return fmt.Sprintf("%s %d", apClassify(err, true), x.a.GetExpectedNext())
		}
		return apClassify(err, false)
	}
	x.lastApplied = maxSeq
	return fmt.Sprintf("ok %d", maxSeq)
}

func (x *applierRun) message(idx []int, codec rproto.CompressionCodec) (*rproto.WALStreamResponse, string) {
	resp := &rproto.WALStreamResponse{Codec: codec, Compressed: codec != rproto.CompressionCodec_NONE}
	for _, i := range idx {
		if i < 0 || i >= len(x.L) {
			return nil, "bad-index"
		}
		pe, err := replication.WALEntryToProto(x.L[i], rproto.FragmentType_FULL)
		if err != nil {
			return nil, "err serialize"
		}
		if resp.Compressed {
			c, err := x.comp.Compress(pe.Payload, codec)
			if err != nil {
				return nil, "err compress"
			}
			pe.Payload = c
		}
		resp.Entries = append(resp.Entries, pe)
	}
	return resp, ""
}

func apParseIdx(ws []string) []int {
	var out []int
	for _, s := range ws {
		i, err := strconv.Atoi(s)
		if err != nil {
			i = -1
		}
		out = append(out, i)
	}
	return out
}

func (x *applierRun) closeCase() {
	if x.cancel != nil {
		x.cancel()
		select {
		case <-x.done:
		case <-time.After(patience(5 * time.Second)):
		}
		x.cancel = nil
	}
	if x.prim != nil {
		x.prim.Close()
		x.prim = nil
	}
	if x.w != nil {
		x.w.Close()
		x.w = nil
	}
	if x.eng != nil {
		x.eng.Close()
		x.eng = nil
	}
	x.engApplier = nil
	x.stream, x.session, x.primErr = nil, "", ""
	x.r.dropTemp()
}

// buildPrimary writes L through the real WAL (Append for single numbers, AppendBatch for a run of entries
// sharing one number), creates the real Primary on it and registers a quiet session with a fake stream.
func (x *applierRun) buildPrimary() string {
	if x.prim != nil || x.primErr != "" {
		return x.primErr
	}
	fail := func(s string) string { x.primErr = s; return s }
	dir := x.r.tempDir()
	cfg := config.NewDefaultConfig(dir)
	cfg.WALSyncMode = config.SyncNone
	w, err := wal.NewWAL(cfg, dir)
	if err != nil {
		return fail("err wal")
	}
	x.w = w
	if len(x.L) > 0 && x.L[0].SequenceNumber > 1 {
		w.UpdateNextSequence(x.L[0].SequenceNumber)
	}
	for i := 0; i < len(x.L); {
		j := i + 1
		for j < len(x.L) && x.L[j].SequenceNumber == x.L[i].SequenceNumber {
			j++
		}
		var seq uint64
		if j == i+1 {
			seq, err = w.Append(x.L[i].Type, x.L[i].Key, x.L[i].Value)
		} else {
			batch := make([]*wal.Entry, 0, j-i)
			for _, e := range x.L[i:j] {
				batch = append(batch, &wal.Entry{Type: e.Type, Key: e.Key, Value: e.Value})
			}
			seq, err = w.AppendBatch(batch)
		}
		if err != nil {
			return fail("err walappend")
		}
		if seq != x.L[i].SequenceNumber {
			return fail("err logshape")
		}
		i = j
	}
	p, err := replication.NewPrimary(w, &replication.PrimaryConfig{MaxBatchSizeKB: 256, CompressionCodec: rproto.CompressionCodec_NONE, RespectTxBoundaries: true})
	if err != nil {
		return fail("err primary")
	}
	x.prim = p
	ctx, cancel := context.WithCancel(context.Background())
	x.cancel = cancel
	x.stream = &apFakeStream{ctx: ctx, header: make(chan metadata.MD, 1)}
	x.done = make(chan struct{})
	go func() {
		defer close(x.done)
		defer func() { recover() }()
		// a start position far in the future: no initial entries, and the 100 ms polling sender stays quiet
		p.StreamWAL(&rproto.WALStreamRequest{StartSequence: 1 << 62, ListenerAddress: "harness:0"}, x.stream)
	}()
	select {
	case md := <-x.stream.header:
		if ids := md.Get("session-id"); len(ids) > 0 {
			x.session = ids[0]
		}
	case <-time.After(patience(10 * time.Second)):
		return fail("err session")
	}
	return ""
}

// selection asks the real primary for the entries from `from` (NegativeAcknowledge -> resendEntries ->
// getWALEntriesFromSequence) and maps them back to indices of L.
func (x *applierRun) selection(from uint64) (*rproto.WALStreamResponse, []int, string) {
	if e := x.buildPrimary(); e != "" {
		return nil, nil, e
	}
	x.stream.take()
	ctx := metadata.NewIncomingContext(context.Background(), metadata.Pairs("session-id", x.session))
	x.prim.NegativeAcknowledge(ctx, &rproto.Nack{MissingFromSequence: from})
	var msgs []*rproto.WALStreamResponse
	for _, m := range x.stream.take() {
		if len(m.Entries) > 0 { // heartbeats are empty responses
			msgs = append(msgs, m)
		}
	}
	if len(msgs) == 0 {
		return &rproto.WALStreamResponse{}, nil, ""
	}
	if len(msgs) > 1 {
		return nil, nil, "err multiple-messages"
	}
	resp := msgs[0]
	var idx []int
	j := 0
	for _, pe := range resp.Entries {
		found := -1
		for ; j < len(x.L); j++ {
			want, _ := replication.SerializeWALEntry(x.L[j])
			if x.L[j].SequenceNumber == pe.SequenceNumber && bytes.Equal(want, pe.Payload) {
				found = j
				j++
				break
			}
		}
		if found < 0 {
			return nil, nil, "err foreign-entry"
		}
		idx = append(idx, found)
	}
	return resp, idx, ""
}

func apFmtIdx(idx []int) string {
	parts := []string{strconv.Itoa(len(idx))}
	for _, i := range idx {
		parts = append(parts, strconv.Itoa(i))
	}
	return strings.Join(parts, " ")
}

func apFmtEntry(e *wal.Entry) string {
	return fmt.Sprintf("%d:%d:%s:%s", e.SequenceNumber, e.Type, hx(e.Key), hx(e.Value))
}

func apDeserClass(err error) string {
	m := err.Error()
	switch {
	case strings.Contains(m, "payload too small for value length"):
		return "vallen4"
	case strings.Contains(m, "payload too small"):
		return "small"
	case strings.Contains(m, "invalid operation type"):
		return "op"
	case strings.Contains(m, "key length too large"):
		return "keylarge"
	case strings.Contains(m, "invalid key length"):
		return "keylen"
	case strings.Contains(m, "value length too large"):
		return "vallarge"
	case strings.Contains(m, "invalid value length"):
		return "vallen"
	}
	return "other"
}

func (x *applierRun) step(ws []string) (out string) {
	defer func() {
		if p := recover(); p != nil {
			out = "panic " + strings.ReplaceAll(fmt.Sprint(p), " ", "_")
		}
	}()
	if ws[0] != "log" && ws[0] != "ser" && ws[0] != "deser" && x.a == nil {
		return "bad-op"
	}
	switch ws[0] {
	case "log":
		x.closeCase()
		start, _ := strconv.ParseUint(ws[1], 10, 64)
		x.sink = ws[2]
		n, _ := strconv.Atoi(ws[3])
		x.L = nil
		for i := 0; i < n; i++ {
			f := ws[4+4*i : 8+4*i]
			seq, _ := strconv.ParseUint(f[0], 10, 64)
			op, _ := strconv.Atoi(f[1])
			x.L = append(x.L, &wal.Entry{SequenceNumber: seq, Type: uint8(op), Key: unhx(f[2]), Value: unhx(f[3])})
		}
		x.a = replication.NewWALBatchApplier(start)
		x.lastApplied = start // NewReplica(lastAppliedSeq, ...)
		x.applied, x.failAt = nil, nil
		if x.sink == "eng" {
			dir := x.r.tempDir()
			cfg := config.NewDefaultConfig(dir)
			cfg.WALSyncMode = config.SyncNone
			cfg.CompactionInterval = 3600
			if err := cfg.SaveManifest(dir); err != nil {
				return "err manifest"
			}
			e, err := engine.NewEngineFacade(dir)
			if err != nil {
				return "err engine"
			}
			e.SetReadOnly(true)
			x.eng = e
			x.engApplier = replication.NewEngineApplier(e)
		}
		return "ok " + x.counters()
	case "deliverbad":
		resp, e := x.message(apParseIdx(ws[2:]), rproto.CompressionCodec_NONE)
		if e != "" {
			return e
		}
		resp.Compressed, resp.Codec = true, rproto.CompressionCodec_ZSTD
		return x.receive(resp) + " ; " + x.counters()
	case "deliver", "deliverz", "apply":
		codec := rproto.CompressionCodec_NONE
		rest := ws[1:]
		if ws[0] == "deliverz" {
			c, _ := strconv.Atoi(ws[1])
			codec = rproto.CompressionCodec(c)
			rest = ws[2:]
		}
		resp, e := x.message(apParseIdx(rest[1:]), codec)
		if e != "" {
			return e
		}
		if ws[0] == "apply" {
			seq, gap, err := x.a.ApplyEntries(resp.Entries, x.applyEntry)
			cls := "nil"
			if err != nil {
				cls = strings.ReplaceAll(apClassify(err, gap), " ", "-")
			}
			return fmt.Sprintf("ret %d %v %s ; %s", seq, gap, cls, x.counters())
		}
		return x.receive(resp) + " ; " + x.counters()
	case "raw":
		n, _ := strconv.Atoi(ws[1])
		resp := &rproto.WALStreamResponse{}
		for i := 0; i < n; i++ {
			seq, _ := strconv.ParseUint(ws[2+2*i], 10, 64)
			resp.Entries = append(resp.Entries, &rproto.WALEntry{SequenceNumber: seq, Payload: unhx(ws[3+2*i])})
		}
		return x.receive(resp) + " ; " + x.counters()
	case "poll", "select":
		var from uint64
		switch {
		case ws[0] == "select":
			from, _ = strconv.ParseUint(ws[1], 10, 64)
		case ws[1] == "ack":
			from = x.a.GetLastAcknowledged() + 1
		default:
			from = x.a.GetExpectedNext()
		}
		resp, idx, e := x.selection(from)
		if e != "" {
			return ws[0] + " " + e
		}
		if ws[0] == "select" {
			return fmt.Sprintf("sel %d %s", from, apFmtIdx(idx))
		}
		return fmt.Sprintf("poll %d %s | %s ; %s", from, apFmtIdx(idx), x.receive(resp), x.counters())
	case "ack":
		// handleAcknowledgingState: ack GetMaxApplied(); lastAppliedSeq = maxApplied; AcknowledgeUpTo(maxApplied)
		maxApplied := x.a.GetMaxApplied()
		x.lastApplied = maxApplied
		x.a.AcknowledgeUpTo(maxApplied)
		return fmt.Sprintf("ack %d ; %s", maxApplied, x.counters())
	case "reconnect":
		// handleStreamingState with streamClient == nil: WALStreamRequest{StartSequence: GetExpectedNext()}
		return fmt.Sprintf("stream %d ; %s", x.a.GetExpectedNext(), x.counters())
	case "reset":
		seq, _ := strconv.ParseUint(ws[1], 10, 64)
		x.a.Reset(seq)
		return "ok " + x.counters()
	case "failapply":
		i, _ := strconv.Atoi(ws[1])
		x.failAt = append(x.failAt, i)
		return "ok"
	case "counters":
		return "c " + x.counters()
	case "applied":
		parts := []string{"applied", strconv.Itoa(len(x.applied))}
		for _, e := range x.applied {
			parts = append(parts, apFmtEntry(e))
		}
		return strings.Join(parts, " ")
	case "state":
		if x.eng == nil {
			return "state -"
		}
		it, err := x.eng.GetIterator()
		if err != nil {
			return "state err"
		}
		var parts []string
		for it.SeekToFirst(); it.Valid(); it.Next() {
			if it.IsTombstone() {
				continue
			}
			parts = append(parts, hx(it.Key())+":"+hx(it.Value()))
		}
		return strings.TrimRight(fmt.Sprintf("state %d %d %s", len(x.applied), len(parts), strings.Join(parts, " ")), " ")
	case "ser":
		seq, _ := strconv.ParseUint(ws[1], 10, 64)
		op, _ := strconv.Atoi(ws[2])
		pl, err := replication.SerializeWALEntry(&wal.Entry{SequenceNumber: seq, Type: uint8(op), Key: unhx(ws[3]), Value: unhx(ws[4])})
		if err != nil {
			return "err"
		}
		return "ser " + hx(pl)
	case "deser":
		e, err := replication.DeserializeWALEntry(unhx(ws[1]))
		if err != nil {
			return "err " + apDeserClass(err)
		}
		return "ok " + apFmtEntry(e)
	}
	return "bad-op"
}

func runApplier(r *runner) {
	klog.SetLevel(klog.LevelError)
	x := &applierRun{r: r}
	var err error
	x.comp, err = replication.NewCompressionManager()
	if err != nil {
		panic(err)
	}
	for {
		ws, ok := r.next()
		if !ok {
			break
		}
		r.emit(x.step(ws))
	}
	x.closeCase()
}
