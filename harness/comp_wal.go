package main

import (
	"bufio"
	"errors"
	"fmt"
	"hash/crc32"
	"os"
	"path/filepath"
	"sort"
	"strconv"
	"strings"
	"time"

	"github.com/KevoDB/kevo/pkg/config"
	"github.com/KevoDB/kevo/pkg/wal"
)

func init() {
	components["wal"] = &component{gen: genWal, run: runWal}
	// same executor; programs around WAL.ManageRetention (C08: the sequence counter survives retention + restart)
	components["walret"] = &component{gen: genWalRet, run: runWal}
	wal.DisableRecoveryLogs = true
}

// genWalRet: several log files (rotations, some left empty), then ManageRetention with count / age / sequence rules whose
// thresholds sit at -1/0/+1 of the highest number written, then restart and write again.
func genWalRet(g *gen, n int, tier string, w *bufio.Writer) {
	for c := 0; c < n; c++ {
		fmt.Fprintf(w, "# case %d\n", c)
		fmt.Fprintln(w, "new")
		if g.chance(1, 6) {
			fmt.Fprintf(w, "setnext %d\n", 2+g.intn(40))
		}
		nfiles := 1 + g.intn(5)
		written := 0
		for f := 0; f < nfiles; f++ {
			m := g.pick(0, 1, 1, 2, 3, 4)
			if f == nfiles-1 && g.chance(1, 2) {
				m = 0 // the current file is empty (as right after a flush)
			}
			for i := 0; i < m; i++ {
				if g.chance(1, 4) {
					fmt.Fprintln(w, join("batch", "2", "1", hx(g.key()), hx(g.bytesN(3)), "2", hx(g.key()), "="))
				} else {
					fmt.Fprintln(w, join("append", strconv.Itoa(g.pick(1, 1, 2)), hx(g.key()), hx(g.bytesN(g.intn(6)))))
				}
				written++
			}
			if f < nfiles-1 {
				fmt.Fprintln(w, g.pickS("rotate", "rotate", "rotate", "reopen"))
				if g.chance(1, 3) {
					fmt.Fprintln(w, "rotate")
				}
			}
		}
		for r := 0; r < 1+g.intn(2); r++ {
			count, maxage, minseq := 0, 0, 0
			switch g.intn(10) {
			case 0:
				count = g.pick(1, 2, 3)
			case 1:
				maxage = 24
			case 2:
				count, maxage = g.pick(2, 3), 24
			}
			if g.chance(4, 5) {
				minseq = written + g.pick(-2, -1, 0, 0, 0, 1, 1, 2) + g.pick(0, 0, 0, 40)
				if minseq < 0 {
					minseq = 0
				}
			}
			// creation times: strictly older for older files; some beyond 24 h
			ages := make([]string, 14) // at most 10 closed files exist here
			a := 1 + g.intn(30)
			for i := len(ages) - 1; i >= 0; i-- {
				if a == 24 { // never exactly at the age limit: the code measures real time (24 h plus a few microseconds)
					a = 25
				}
				ages[i] = strconv.Itoa(a)
				a += 1 + g.intn(12)
			}
			fmt.Fprintf(w, "retain count=%d maxage=%d minseq=%d ages=%s\n", count, maxage, minseq, strings.Join(ages, ","))
			fmt.Fprintln(w, "sums")
			fmt.Fprintln(w, "replay")
			fmt.Fprintln(w, "reopen")
			fmt.Fprintln(w, join("append", "1", hx(g.key()), hx(g.bytesN(2))))
			written++
			if g.chance(1, 2) {
				fmt.Fprintln(w, "rotate")
				fmt.Fprintln(w, join("append", "1", hx(g.key()), hx(g.bytesN(2))))
				written++
			}
		}
		fmt.Fprintln(w, "replay")
	}
}

// ---------- generator ----------

// value sizes that put the payload (13 + klen + 4 + vlen) at -1/0/+1 of k*MaxRecordSize
func (g *gen) walValue(klen int, big bool) []byte {
	max := wal.MaxRecordSize
	var n int
	switch c := g.intn(100); {
	case c < 8:
		n = 0
	case c < 20:
		n = 1
	case c < 60:
		n = 2 + g.intn(40)
	case c < 80:
		n = 100 + g.intn(3000)
	default:
		if !big {
			n = 50 + g.intn(500)
			break
		}
		k := g.pick(1, 1, 1, 2, 2, 3)
		n = k*max - 17 - klen + g.pick(-2, -1, 0, 1, 2)
		if g.chance(1, 3) { // remaining-after-first-fragment exactly k*max (+-1)
			first := 13 + klen
			if first > max {
				first = max
			}
			n = k*max + (first - 13 - klen) - 4 + g.pick(-1, 0, 1)
		}
		if n < 0 {
			n = 0
		}
	}
	return g.bytesN(n)
}

func (g *gen) walKey(big bool) []byte {
	if big && g.chance(1, 25) { // key spilling over the first fragment
		return g.bytesN(wal.MaxRecordSize - 13 + g.pick(-1, 0, 1, 100, wal.MaxRecordSize))
	}
	if g.chance(1, 30) {
		return []byte{}
	}
	return g.key()
}

func genWal(g *gen, n int, tier string, w *bufio.Writer) {
	c0 := g.intn(1 << 20) // phase of the case kinds: generation is chunked, every chunk must reach every kind
	for c := 0; c < n; c++ {
		big := (c+c0)%5 == 0 // every 5th case may contain multi-fragment entries
		fmt.Fprintf(w, "# case %d\n", c)
		fmt.Fprintln(w, "new")
		steps := 3 + g.intn(25)
		if big {
			steps = 2 + g.intn(8)
		}
		for s := 0; s < steps; s++ {
			switch x := g.intn(100); {
			case x < 45:
				op := g.pick(1, 1, 1, 2, 2, 3)
				if g.chance(1, 40) {
					op = g.pick(0, 4, 255)
				}
				k := g.walKey(big)
				v := g.walValue(len(k), big)
				if op == 2 && g.chance(1, 2) {
					v = nil
				}
				fmt.Fprintln(w, join("append", strconv.Itoa(op), hx(k), hx(v)))
				if len(k)+len(v) > wal.MaxRecordSize-40 && g.chance(1, 2) {
					// a (possibly fragmented) large entry as the LAST thing in the file when it is reopened / rotated
					fmt.Fprintln(w, g.pickS("reopen", "reopen", "rotate"))
					fmt.Fprintln(w, "replay")
				}
			case x < 65:
				m := g.intn(6)
				if g.chance(1, 10) {
					m = 20 + g.intn(60)
				}
				parts := []string{"batch", strconv.Itoa(m)}
				for i := 0; i < m; i++ {
					op := g.pick(1, 1, 2)
					k := g.walKey(false)
					var v []byte
					if op != 2 {
						v = g.walValue(len(k), false)
						if big && g.chance(1, 12) { // entry at / beyond the single-record limit inside a batch
							v = g.bytesN(wal.MaxRecordSize - 17 - len(k) + g.pick(-1, 0, 1))
						}
					}
					parts = append(parts, strconv.Itoa(op), hx(k), hx(v))
				}
				fmt.Fprintln(w, strings.Join(parts, " "))
			case x < 73:
				fmt.Fprintln(w, "rotate")
			case x < 80:
				fmt.Fprintln(w, "reopen")
			case x < 88:
				fmt.Fprintln(w, "replay")
			case x < 96:
				fmt.Fprintln(w, join("from", strconv.Itoa(g.intn(steps+3))))
			default:
				fmt.Fprintln(w, "sums")
			}
		}
		if big {
			fmt.Fprintln(w, "sums")
		} else {
			fmt.Fprintln(w, "files")
		}
		fmt.Fprintln(w, "replay")
		fmt.Fprintln(w, join("from", strconv.Itoa(g.intn(steps+2))))
	}
	// sequence overflow guard
	fmt.Fprintln(w, "# case overflow")
	fmt.Fprintln(w, "new")
	fmt.Fprintln(w, join("setnext", strconv.FormatUint(wal.MaxSequenceNumber-1, 10)))
	fmt.Fprintln(w, "append 1 61 62")
	fmt.Fprintln(w, "append 1 61 63")
	fmt.Fprintln(w, "batch 1 1 61 64")
	fmt.Fprintln(w, "replay")
}

// ---------- executor ----------

type walRun struct {
	r   *runner
	cfg *config.Config
	dir string
	w   *wal.WAL
}

func walErrClass(err error) string {
	switch {
	case errors.Is(err, wal.ErrInvalidOpType):
		return "invalidop"
	case errors.Is(err, wal.ErrSequenceOverflow):
		return "overflow"
	case strings.Contains(err.Error(), "record too large"):
		return "toolarge"
	case errors.Is(err, wal.ErrWALRotating):
		return "rotating"
	case errors.Is(err, wal.ErrWALClosed):
		return "closed"
	}
	return "other:" + strings.ReplaceAll(err.Error(), " ", "_")
}

func fmtEntry(e *wal.Entry) string {
	return fmt.Sprintf("%d:%d:%s:%s", e.Type, e.SequenceNumber, hx(e.Key), hx(e.Value))
}

func fmtEntries(es []*wal.Entry) string {
	parts := []string{strconv.Itoa(len(es))}
	for _, e := range es {
		parts = append(parts, fmtEntry(e))
	}
	return strings.Join(parts, " ")
}

func walFiles(dir string) []string {
	m, _ := filepath.Glob(filepath.Join(dir, "*.wal"))
	sort.Strings(m)
	return m
}

func replayDirSafe(dir string) (es []*wal.Entry, status string) {
	defer func() {
		if p := recover(); p != nil {
			status = "panic"
		}
	}()
	_, err := wal.ReplayWALDir(dir, func(e *wal.Entry) error {
		es = append(es, e)
		return nil
	})
	if err != nil {
		return es, "err"
	}
	return es, "ok"
}

func (x *walRun) open() {
	x.r.dropTemp()
	x.dir = x.r.tempDir()
	x.cfg = config.NewDefaultConfig(x.dir)
	x.cfg.WALSyncMode = config.SyncNone
	var err error
	x.w, err = wal.NewWAL(x.cfg, x.dir)
	if err != nil {
		panic(err)
	}
}

func parseTriples(ws []string) []*wal.Entry {
	var es []*wal.Entry
	for i := 0; i+2 < len(ws); i += 3 {
		op, _ := strconv.Atoi(ws[i])
		es = append(es, &wal.Entry{Type: uint8(op), Key: unhx(ws[i+1]), Value: unhx(ws[i+2])})
	}
	return es
}

// stepBasic: new / append / batch / rotate (shared with component walfault)
func (x *walRun) stepBasic(ws []string) string {
	switch ws[0] {
	case "new":
		if x.w != nil {
			x.w.Close()
		}
		x.open()
		return "ok"
	case "append":
		op, _ := strconv.Atoi(ws[1])
		seq, err := x.w.Append(uint8(op), unhx(ws[2]), unhx(ws[3]))
		if err != nil {
			return "err " + walErrClass(err)
		}
		return fmt.Sprintf("ok %d", seq)
	case "batch":
		seq, err := x.w.AppendBatch(parseTriples(ws[2:]))
		if err != nil {
			return "err " + walErrClass(err)
		}
		return fmt.Sprintf("ok %d", seq)
	case "rotate":
		next := x.w.GetNextSequence()
		x.w.Close()
		nw, err := wal.NewWAL(x.cfg, x.dir)
		if err != nil {
			panic(err)
		}
		nw.UpdateNextSequence(next)
		x.w = nw
		return "ok"
	}
	return "bad-op"
}

func runWal(r *runner) {
	x := &walRun{r: r}
	for {
		ws, ok := r.next()
		if !ok {
			break
		}
		switch ws[0] {
		case "new":
			if x.w != nil {
				x.w.Close()
			}
			x.open()
			r.emit("ok")
		case "setnext":
			n, _ := strconv.ParseUint(ws[1], 10, 64)
			x.w.UpdateNextSequence(n)
			r.emit("ok")
		case "append":
			op, _ := strconv.Atoi(ws[1])
			seq, err := x.w.Append(uint8(op), unhx(ws[2]), unhx(ws[3]))
			if err != nil {
				r.emit("err " + walErrClass(err))
			} else {
				r.emit(fmt.Sprintf("ok %d", seq))
			}
		case "batch":
			seq, err := x.w.AppendBatch(parseTriples(ws[2:]))
			if err != nil {
				r.emit("err " + walErrClass(err))
			} else {
				r.emit(fmt.Sprintf("ok %d", seq))
			}
		case "rotate":
			next := x.w.GetNextSequence()
			x.w.Close()
			nw, err := wal.NewWAL(x.cfg, x.dir)
			if err != nil {
				panic(err)
			}
			nw.UpdateNextSequence(next)
			x.w = nw
			r.emit("ok")
		case "reopen":
			x.w.Close()
			es, _ := replayDirSafe(x.dir)
			var max uint64
			for _, e := range es {
				if e.SequenceNumber > max {
					max = e.SequenceNumber
				}
			}
			nw, err := wal.ReuseWAL(x.cfg, x.dir, 1)
			if err != nil {
				panic(err)
			}
			if nw == nil {
				if nw, err = wal.NewWAL(x.cfg, x.dir); err != nil {
					panic(err)
				}
			}
			nw.UpdateNextSequence(max + 1)
			x.w = nw
			r.emit(fmt.Sprintf("ok %d", nw.GetNextSequence()))
		case "files", "sums":
			x.w.Sync()
			fs := walFiles(x.dir)
			parts := []string{ws[0], strconv.Itoa(len(fs))}
			for _, f := range fs {
				b, _ := os.ReadFile(f)
				if ws[0] == "files" {
					parts = append(parts, hx(b))
				} else {
					parts = append(parts, fmt.Sprintf("%d:%d", len(b), crc32.ChecksumIEEE(b)))
				}
			}
			r.emit(strings.Join(parts, " "))
		case "replay":
			x.w.Sync()
			es, st := replayDirSafe(x.dir)
			r.emit("replay " + st + " " + fmtEntries(es))
		case "from":
			n, _ := strconv.ParseUint(ws[1], 10, 64)
			es, err := x.w.GetEntriesFrom(n)
			if err != nil {
				r.emit("from err")
			} else {
				r.emit("from ok " + fmtEntries(es))
			}
		case "retain":
			// retain count=<n> maxage=<hours> minseq=<n> ages=<h0,h1,...>: the closed files (oldest first) get creation times
			// `ages[i]` hours ago (the time stamp IS the file name), then the real WAL.ManageRetention runs
			kv := parseKV(ws[1:])
			x.w.Sync()
			fs := walFiles(x.dir)
			now := time.Now()
			ages := strings.Split(kv["ages"], ",")
			for i := 0; i+1 < len(fs); i++ {
				if i >= len(ages) || ages[i] == "" {
					continue // no age given for this file: it keeps its real creation time (age 0, still older than the current file)
				}
				h, _ := strconv.Atoi(ages[i])
				os.Rename(fs[i], filepath.Join(x.dir, fmt.Sprintf("%020d.wal", now.Add(-time.Duration(h)*time.Hour).UnixNano())))
			}
			n, err := x.w.ManageRetention(wal.WALRetentionConfig{MaxFileCount: atoi(kv["count"]),
				MaxAge: time.Duration(atoi(kv["maxage"])) * time.Hour, MinSequenceKeep: uint64(atoi(kv["minseq"]))})
			if err != nil {
				r.emit("retained err")
			} else {
				r.emit(fmt.Sprintf("retained %d", n))
			}
		case "replaybytes":
			d := r.tempDir()
			for i, h := range ws[1:] {
				os.WriteFile(filepath.Join(d, fmt.Sprintf("%020d.wal", i+1)), unhx(h), 0644)
			}
			es, st := replayDirSafe(d)
			os.RemoveAll(d)
			r.emit("replay " + st + " " + fmtEntries(es))
		default:
			r.emit("bad-op")
		}
	}
	if x.w != nil {
		x.w.Close()
	}
}
