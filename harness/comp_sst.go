package main

import (
	"bufio"
	"bytes"
	"encoding/binary"
	"fmt"
	"hash/crc32"
	"os"
	"path/filepath"
	"sort"
	"strconv"
	"strings"

	"github.com/cespare/xxhash/v2"

	bloomfilter "github.com/KevoDB/kevo/pkg/bloom_filter"
	"github.com/KevoDB/kevo/pkg/sstable"
	"github.com/KevoDB/kevo/pkg/sstable/block"
)

func init() {
	components["sst"] = &component{gen: genSst, run: runSst}
	components["sstsweep"] = &component{gen: genSstSweep, run: runSst}
}

// ---------- generator ----------

type sstEntry struct {
	k, v []byte
	seq  uint64
}

// sorted distinct keys: mix of the colliding alphabet, numbered keys with long shared prefixes, random binary
func (g *gen) sortedKeys(n int) [][]byte {
	set := map[string]bool{}
	style := g.intn(4)
	prefix := ""
	if g.chance(1, 2) {
		prefix = strings.Repeat("p", g.pick(1, 8, 40, 200))
	}
	if g.chance(1, 6) {
		set[""] = true // the empty key is a legal key (first entry of the table/block)
	}
	for len(set) < n {
		var k []byte
		switch style {
		case 0:
			k = []byte(fmt.Sprintf("%skey%05d", prefix, 2*g.intn(3*n+10)))
		case 1:
			k = g.key()
			if g.chance(1, 2) {
				k = append(append([]byte{}, k...), g.bytesN(g.intn(4))...)
			}
		case 2:
			k = g.bytesN(1 + g.intn(10))
		default:
			k = []byte(fmt.Sprintf("%s%d", prefix, g.intn(50*n+10)))
		}
		set[string(k)] = true
	}
	ks := make([][]byte, 0, n)
	for k := range set {
		ks = append(ks, []byte(k))
	}
	sort.Slice(ks, func(i, j int) bool { return bytes.Compare(ks[i], ks[j]) < 0 })
	return ks
}

func (g *gen) sstEntries(n int, valMax int) []sstEntry {
	ks := g.sortedKeys(n)
	es := make([]sstEntry, n)
	for i, k := range ks {
		var v []byte
		switch c := g.intn(100); {
		case c < 12:
			v = nil // tombstone
		case c < 20:
			v = []byte{}
		case c < 70:
			v = g.bytesN(1 + g.intn(24))
		default:
			v = g.bytesN(1 + g.intn(valMax))
		}
		es[i] = sstEntry{k, v, uint64(g.intn(1000000))}
	}
	return es
}

func fmtSstEntries(es []sstEntry) string {
	parts := make([]string, 0, 3*len(es))
	for _, e := range es {
		parts = append(parts, hx(e.k), hxv(e.v), strconv.FormatUint(e.seq, 10))
	}
	return strings.Join(parts, " ")
}

// seek targets: present keys, between keys, before first, after last, prefixes / extensions
func (g *gen) seekTarget(es []sstEntry) []byte {
	e := es[g.intn(len(es))].k
	if len(e) == 0 { // the empty key: itself, or its immediate successors
		return [][]byte{{}, {0}, {0, 0}, {1}}[g.intn(4)]
	}
	switch g.intn(8) {
	case 0, 1, 2:
		return e
	case 3:
		return append(append([]byte{}, e...), 0)
	case 4:
		if len(e) > 1 {
			return e[:len(e)-1]
		}
		return []byte{0}
	case 5:
		return []byte{0}
	case 6:
		return bytes.Repeat([]byte{0xff}, 12)
	default:
		t := append([]byte{}, e...)
		t[len(t)-1]++
		return t
	}
}

func genSst(g *gen, n int, tier string, w *bufio.Writer) {
	c0 := g.intn(1 << 20) // phase of the case kinds: generation is chunked, every chunk must reach every kind
	fmt.Fprintln(w, "# case params")
	fmt.Fprintln(w, "bloomparams")
	for c := 0; c < n; c++ {
		fmt.Fprintf(w, "# case %d\n", c)
		if (c+c0)%3 != 2 { // block-level case
			cnt := g.pick(1, 2, 3, 15, 16, 17, 18, 31, 32, 33, 40, 64, 100)
			if g.chance(1, 3) {
				cnt = 1 + g.intn(70)
			}
			es := g.sstEntries(cnt, 200)
			if g.chance(1, 25) && cnt > 2 { // not ascending: the builder must refuse
				es[1], es[0] = es[0], es[1]
			}
			fmt.Fprintf(w, "bbuild %d %s\n", cnt, fmtSstEntries(es))
			for s := 0; s < 6+g.intn(20); s++ {
				switch g.intn(10) {
				case 0:
					fmt.Fprintln(w, "bfirst")
				case 1:
					fmt.Fprintln(w, "blast")
				case 2, 3, 4, 5:
					fmt.Fprintln(w, "bnext")
				default:
					fmt.Fprintln(w, "bseek "+hx(g.seekTarget(es)))
				}
			}
			continue
		}
		// table-level case: mostly small, some multi-block
		cnt := 1 + g.intn(60)
		valMax := 300
		if (c+c0)%15 == 2 {
			cnt = 80 + g.intn(300)
			valMax = g.pick(1200, 3000, 9000)
		}
		es := g.sstEntries(cnt, valMax)
		bloom := 1
		if g.chance(1, 5) {
			bloom = 0
		}
		fmt.Fprintf(w, "tbuild bloom=%d %d %s\n", bloom, cnt, fmtSstEntries(es))
		fmt.Fprintln(w, "tall")
		if (c+c0)%9 == 5 && cnt <= 30 { // single-byte alterations of a small table file
			for a := 0; a < 40; a++ {
				fmt.Fprintf(w, "talter %d %d\n", g.intn(12000), g.pick(1, 0x80, 0xff, 0x10))
				fmt.Fprintln(w, "tall")
				fmt.Fprintln(w, "tget "+hx(g.seekTarget(es)))
				fmt.Fprintln(w, "tseek "+hx(g.seekTarget(es)))
			}
			continue
		}
		for s := 0; s < 8+g.intn(25); s++ {
			switch g.intn(12) {
			case 0:
				fmt.Fprintln(w, "tfirst")
			case 1:
				fmt.Fprintln(w, "tlast")
			case 2:
				fmt.Fprintln(w, "tnew")
			case 3, 4, 5:
				fmt.Fprintln(w, "tnext")
			case 6, 7, 8:
				fmt.Fprintln(w, "tseek "+hx(g.seekTarget(es)))
			default:
				fmt.Fprintln(w, "tget "+hx(g.seekTarget(es)))
			}
		}
	}
}

// ---------- executor ----------

type sstRun struct {
	r    *runner
	bit  *block.Iterator
	dir  string
	file []byte
	orig []byte // the unaltered table as written
	n    int
	rd   *sstable.Reader
	it   *sstable.Iterator
}

func b2s(b bool) string {
	if b {
		return "1"
	}
	return "0"
}

func (x *sstRun) showB(ret string) string {
	it := x.bit
	return fmt.Sprintf("%s %s %s %s %d %s", ret, b2s(it.Valid()), hxvKey(it.Key()), hxv(it.Value()), it.SequenceNumber(), b2s(it.IsTombstone()))
}

func hxvKey(k []byte) string {
	if k == nil {
		return "-"
	}
	return hx(k)
}

func (x *sstRun) showT(ret string) string {
	it := x.it
	return fmt.Sprintf("%s %s %s %s %d %s", ret, b2s(it.Valid()), hxvKey(it.Key()), hxv(it.Value()), it.SequenceNumber(), b2s(it.IsTombstone()))
}

func parseSstEntries(ws []string) []sstEntry {
	var es []sstEntry
	for i := 0; i+2 < len(ws); i += 3 {
		s, _ := strconv.ParseUint(ws[i+2], 10, 64)
		es = append(es, sstEntry{unhx(ws[i]), unhx(ws[i+1]), s})
	}
	return es
}

func canonicalTable(b []byte) []byte {
	c := append([]byte{}, b...)
	n := len(c)
	if n >= 68 {
		for i := n - 56; i < n-48; i++ {
			c[i] = 0
		}
		for i := n - 8; i < n; i++ {
			c[i] = 0
		}
	}
	return c
}

// ---------- component sstsweep (C11, alteration clause; implementation only) ----------
//
//	tbuild bloom=<0|1> <n> <entries…>     as in component sst
//	tsweep                                every single-BIT alteration of the table file: open it; if it opens, iterate it
//	                                      completely and look up every written key; every entry it yields must be one that was
//	                                      written (same key, value / deletion flag, sequence number); no panic, no hang.
//	                                      -> sweep flips=<n> opened=<m> foreign=<k> panics=<p> [first=<offset>.<bit>:<what>]
func genSstSweep(g *gen, n int, tier string, w *bufio.Writer) {
	// one table with more data blocks than the reader's block cache holds (100): lookups in random order keep evicting and
	// re-fetching blocks; every written key is found with its value, absent keys are not
	fmt.Fprintf(w, "# case cache\ntcache seed=%d blocks=%d gets=%d\n", g.intn(1<<30), g.pick(130, 180, 260), 4000)
	for c := 0; c < n; c++ {
		cnt := g.pick(3, 17, 33, 40, 49, 60) // 1 .. 4 restart points in the (single) data block
		es := g.sstEntries(cnt, g.pick(4, 12, 40))
		fmt.Fprintf(w, "# case %d\n", c)
		fmt.Fprintf(w, "tbuild bloom=%d %d %s\n", g.pick(1, 1, 0), cnt, fmtSstEntries(es))
		fmt.Fprintln(w, "tsweep")
	}
}

// cacheStorm: see genSstSweep
func (x *sstRun) cacheStorm(kv map[string]string) string {
	g := newGen(int64(atoi(kv["seed"])))
	blocks, gets := atoi(kv["blocks"]), atoi(kv["gets"])
	x.n++
	p := filepath.Join(x.dir, fmt.Sprintf("c%d.sst", x.n))
	w, err := sstable.NewWriter(p)
	if err != nil {
		return "err writer"
	}
	// ~7 entries of ~9.5 KB per 64 KB block
	n := blocks * 7
	vals := make(map[string]string, n)
	keys := make([]string, 0, n)
	for i := 0; i < n; i++ {
		k := fmt.Sprintf("ck%06d", 2*i)
		v := string(g.bytesN(9000 + g.intn(1000)))
		if g.chance(1, 50) {
			v = ""
		}
		if err := w.AddWithSequence([]byte(k), []byte(v), uint64(i+1)); err != nil {
			w.Abort()
			return "err add"
		}
		vals[k] = v
		keys = append(keys, k)
	}
	if err := w.Finish(); err != nil {
		return "err finish"
	}
	rd, err := sstable.OpenReader(p)
	if err != nil {
		return "err open"
	}
	defer rd.Close()
	defer os.Remove(p)
	wrong, first := 0, ""
	for i := 0; i < gets; i++ {
		if g.chance(1, 5) { // an absent key between two written ones
			k := fmt.Sprintf("ck%06d", 2*g.intn(n)+1)
			if v, err := rd.Get([]byte(k)); err == nil {
				wrong++
				if first == "" {
					first = fmt.Sprintf("absent_%s_found_len%d", k, len(v))
				}
			}
			continue
		}
		k := keys[g.intn(n)]
		v, err := rd.Get([]byte(k))
		if err != nil || string(v) != vals[k] {
			wrong++
			if first == "" {
				first = fmt.Sprintf("key_%s_err=%v_len=%d_want_len=%d", k, err != nil, len(v), len(vals[k]))
			}
		}
	}
	// and a full iteration afterwards
	it := rd.NewIterator()
	cnt := 0
	for it.SeekToFirst(); it.Valid(); it.Next() {
		if vals[string(it.Key())] != string(it.Value()) {
			wrong++
			if first == "" {
				first = "iter_" + string(it.Key())
			}
		}
		cnt++
	}
	if cnt != n {
		wrong++
		if first == "" {
			first = fmt.Sprintf("iter_count_%d_want_%d", cnt, n)
		}
	}
	out := fmt.Sprintf("cache entries=%d gets=%d wrong=%d", n, gets, wrong)
	if first != "" {
		out += " first=" + first
	}
	return out
}

func (x *sstRun) sweep() string {
	if len(x.orig) == 0 {
		return "closed"
	}
	type ent struct {
		v    string
		tomb bool
		seq  uint64
	}
	written := map[string]ent{}
	origGet := map[string]string{} // what the UNALTERED table answers to a lookup of each written key
	{
		x.openFile(x.orig)
		it := x.rd.NewIterator()
		for it.SeekToFirst(); it.Valid(); it.Next() {
			written[string(it.Key())] = ent{string(it.Value()), it.IsTombstone(), it.SequenceNumber()}
		}
		for k := range written {
			if v, err := x.rd.Get([]byte(k)); err != nil {
				origGet[k] = "err"
			} else {
				origGet[k] = "found " + hxv(v)
			}
		}
	}
	flips, opened, foreign, panics := 0, 0, 0, 0
	first := ""
	note := func(off, bit int, what string) {
		if first == "" {
			first = fmt.Sprintf("%d.%d:%s", off, bit, what)
		}
	}
	for off := 0; off < len(x.orig); off++ {
		for bit := 0; bit < 8; bit++ {
			flips++
			data := append([]byte{}, x.orig...)
			data[off] ^= 1 << uint(bit)
			func() {
				defer func() {
					if p := recover(); p != nil {
						panics++
						note(off, bit, "panic_"+strings.ReplaceAll(fmt.Sprint(p), " ", "_"))
					}
				}()
				if x.openFile(data) != "ok" {
					return
				}
				opened++
				it := x.rd.NewIterator()
				steps := 0
				for it.SeekToFirst(); it.Valid() && steps < 4*len(written)+16; it.Next() {
					steps++
					w, ok := written[string(it.Key())]
					if !ok || w.v != string(it.Value()) || w.tomb != it.IsTombstone() || w.seq != it.SequenceNumber() {
						foreign++
						note(off, bit, fmt.Sprintf("iter_%s:%s:%d", hx(it.Key()), hxv(it.Value()), it.SequenceNumber()))
						break
					}
				}
				if steps >= 4*len(written)+16 {
					foreign++
					note(off, bit, "iteration-does-not-end")
				}
				for k := range written {
					v, err := x.rd.Get([]byte(k))
					if err != nil {
						continue // hidden or reported: allowed
					}
					if origGet[k] != "found "+hxv(v) {
						foreign++
						note(off, bit, fmt.Sprintf("get_%s:%s", hx([]byte(k)), hxv(v)))
						break
					}
				}
			}()
		}
	}
	out := fmt.Sprintf("sweep flips=%d opened=%d foreign=%d panics=%d", flips, opened, foreign, panics)
	if first != "" {
		out += " first=" + first
	}
	return out
}

func (x *sstRun) openFile(data []byte) string {
	if x.rd != nil {
		x.rd.Close()
		x.rd, x.it = nil, nil
	}
	x.n++
	p := filepath.Join(x.dir, fmt.Sprintf("t%d.sst", x.n))
	os.WriteFile(p, data, 0644)
	x.file = data
	rd, err := sstable.OpenReader(p)
	if err != nil {
		return "err"
	}
	x.rd = rd
	x.it = rd.NewIterator()
	return "ok"
}

func (x *sstRun) step(ws []string) (out string) {
	defer func() {
		if p := recover(); p != nil {
			out = "panic " + strings.ReplaceAll(fmt.Sprint(p), " ", "_")
		}
	}()
	switch ws[0] {
	case "bloomparams":
		bf := bloomfilter.NewBloomFilter(0.01, sstable.DefaultWriterOptions().ExpectedEntriesPerBlock)
		return fmt.Sprintf("%d %d", bf.Size(), bf.HashFunctions())
	case "bbuild":
		x.bit = nil
		es := parseSstEntries(ws[2:])
		b := block.NewBuilder()
		for _, e := range es {
			if err := b.AddWithSequence(e.k, e.v, e.seq); err != nil {
				return "err"
			}
		}
		var buf bytes.Buffer
		if _, err := b.Finish(&buf); err != nil {
			return "err"
		}
		rd, err := block.NewReader(buf.Bytes())
		if err != nil {
			return "err-open"
		}
		x.bit = rd.Iterator()
		return fmt.Sprintf("ok %d %d", buf.Len(), crc32.ChecksumIEEE(buf.Bytes()))
	case "bfirst", "blast", "bnext", "bseek":
		if x.bit == nil {
			return "closed"
		}
		switch ws[0] {
		case "bfirst":
			x.bit.SeekToFirst()
			return x.showB("-")
		case "blast":
			x.bit.SeekToLast()
			return x.showB("-")
		case "bnext":
			return x.showB(b2s(x.bit.Next()))
		default:
			return x.showB(b2s(x.bit.Seek(unhx(ws[1]))))
		}
	case "tbuild":
		if x.rd != nil {
			x.rd.Close()
			x.rd, x.it = nil, nil
		}
		x.file, x.orig = nil, nil
		es := parseSstEntries(ws[3:])
		x.n++
		p := filepath.Join(x.dir, fmt.Sprintf("w%d.sst", x.n))
		opts := sstable.DefaultWriterOptions()
		opts.EnableBloomFilter = ws[1] == "bloom=1"
		w, err := sstable.NewWriterWithOptions(p, opts)
		if err != nil {
			return "err"
		}
		for _, e := range es {
			if err := w.AddWithSequence(e.k, e.v, e.seq); err != nil {
				w.Abort()
				return "err"
			}
		}
		if len(es) == 0 {
			w.Abort()
			return "err"
		}
		if err := w.Finish(); err != nil {
			return "err"
		}
		data, _ := os.ReadFile(p)
		n := len(data)
		fok := n >= 68 && xxhash.Sum64(data[n-68:n-8]) == binary.LittleEndian.Uint64(data[n-8:])
		if !fok {
			return "err-footer-checksum"
		}
		st := x.openFile(data)
		x.orig = data
		return fmt.Sprintf("%s %d %d", st, n, crc32.ChecksumIEEE(canonicalTable(data)))
	case "tsweep":
		return x.sweep()
	case "tcache":
		return x.cacheStorm(parseKV(ws[1:]))
	case "talter":
		off, _ := strconv.Atoi(ws[1])
		xv, _ := strconv.Atoi(ws[2])
		if len(x.orig) == 0 {
			return "closed"
		}
		data := append([]byte{}, x.orig...)
		data[off%len(data)] ^= byte(xv)
		return x.openFile(data)
	case "tnew", "tfirst", "tlast", "tnext", "tseek", "tall":
		if x.rd == nil {
			return "closed"
		}
		switch ws[0] {
		case "tnew":
			x.it = x.rd.NewIterator()
			return "ok"
		case "tfirst":
			x.it.SeekToFirst()
			return x.showT("-")
		case "tlast":
			x.it.SeekToLast()
			return x.showT("-")
		case "tnext":
			return x.showT(b2s(x.it.Next()))
		case "tseek":
			return x.showT(b2s(x.it.Seek(unhx(ws[1]))))
		default:
			it := x.rd.NewIterator()
			var parts []string
			for it.SeekToFirst(); it.Valid(); it.Next() {
				parts = append(parts, fmt.Sprintf("%s:%s:%d", hx(it.Key()), hxv(it.Value()), it.SequenceNumber()))
			}
			st := "ok"
			if it.Error() != nil {
				st = "err"
			}
			return st + " " + strconv.Itoa(len(parts)) + " " + strings.Join(parts, " ")
		}
	case "tget":
		if x.rd == nil {
			return "closed"
		}
		v, err := x.rd.Get(unhx(ws[1]))
		if err == sstable.ErrNotFound {
			return "nf"
		}
		if err != nil {
			return "err"
		}
		return "found " + hxv(v)
	}
	return "bad-op"
}

func runSst(r *runner) {
	x := &sstRun{r: r, dir: r.tempDir()}
	for {
		ws, ok := r.next()
		if !ok {
			break
		}
		r.emit(strings.TrimRight(x.step(ws), " "))
	}
}
