package main

// Component `walfault` (C10): damage to the newest log file.
//
//	new | append <op> <k> <v> | batch <n> … | rotate          build a log directory with the real pkg/wal (as component wal)
//	seal                                                       close the log; remember the bytes of every file -> "ok <nfiles> <len of newest>"
//	truncall <stride>                                          for every cut offset of the newest file: ReplayWALDir -> off:status:count:crc …
//	flipall <xor> <stride>                                     for every byte position: that byte ^ xor -> pos:status:count:crc …
//	engtrunc <off> | engflip <pos> <xor>                        open a real ENGINE on the damaged directory: state digest; then write, reopen, compare

import (
	"bufio"
	"fmt"
	"hash/crc32"
	"os"
	"path/filepath"
	"strconv"
	"strings"

	"github.com/KevoDB/kevo/pkg/config"
	"github.com/KevoDB/kevo/pkg/wal"
)

func init() {
	components["walfault"] = &component{gen: genWalFault, run: runWalFault}
}

func genWalFault(g *gen, n int, tier string, w *bufio.Writer) {
	c0 := g.intn(1 << 20) // phase of the case kinds: generation is chunked, every chunk must reach every kind
	for c := 0; c < n; c++ {
		fmt.Fprintf(w, "# case %d\n", c)
		fmt.Fprintln(w, "new")
		if (c+c0)%12 == 7 {
			// an intact older file, then a newest file of > 6 x 32 KB whose FIRST record gets damaged: the reader gives up
			// on that file ("too many corrupted entries at start") and must still deliver the older file
			for i := 0; i < 3; i++ {
				fmt.Fprintln(w, join("append", "1", hx(g.engKey()), hx(g.bytesN(5+g.intn(30)))))
			}
			fmt.Fprintln(w, "rotate")
			for i := 0; i < 8; i++ {
				fmt.Fprintln(w, join("append", "1", hx(g.engKey()), hx(g.bytesN(29000+g.intn(3000)))))
			}
			fmt.Fprintln(w, "seal")
			fmt.Fprintln(w, "truncall 19997")
			fmt.Fprintf(w, "flipall %d 23003\n", g.pick(1, 0xff))
			fmt.Fprintf(w, "engflip %d 255\n", 7+g.intn(20))
			fmt.Fprintf(w, "engflip %d 1\n", g.intn(7))
			fmt.Fprintln(w, "engcutrec 0")
			continue
		}
		frag := (c+c0)%6 == 5 // contains a fragmented entry (> 32 KB): sampled offsets only
		steps := 2 + g.intn(7)
		for s := 0; s < steps; s++ {
			switch x := g.intn(100); {
			case x < 55:
				op := g.pick(1, 1, 1, 2)
				k := g.engKey()
				v := g.bytesN(g.pick(0, 1, 3, 17, 60, 200))
				if frag && s == 1 {
					v = g.bytesN(wal.MaxRecordSize + g.intn(3000))
				}
				if g.chance(1, 12) { // a value that embeds a well-formed record
					v = embedRecord(g)
				}
				fmt.Fprintln(w, join("append", strconv.Itoa(op), hx(k), hx(v)))
			case x < 85:
				m := 2 + g.intn(3)
				parts := []string{"batch", strconv.Itoa(m)}
				for i := 0; i < m; i++ {
					op := g.pick(1, 1, 2)
					parts = append(parts, strconv.Itoa(op), hx(g.engKey()), hx(g.bytesN(g.pick(0, 2, 20))))
				}
				fmt.Fprintln(w, strings.Join(parts, " "))
			default:
				fmt.Fprintln(w, "rotate")
			}
		}
		fmt.Fprintln(w, join("append", "1", hx(g.engKey()), hx(g.bytesN(9))))
		fmt.Fprintln(w, "seal")
		stride := 1
		if frag {
			stride = 61
		}
		fmt.Fprintf(w, "truncall %d\n", stride)
		fstride := 1
		if frag {
			fstride = 97
		} else if tier == "quick" {
			fstride = 2
		}
		fmt.Fprintf(w, "flipall %d %d\n", g.pick(1, 0x80, 0xff, 0x04), fstride)
		for i := 0; i < 4; i++ {
			fmt.Fprintf(w, "engtrunc %d\n", g.intn(4000))
		}
		for i := 0; i < 3; i++ { // cuts exactly at the end of a physical record (inside a fragmented entry when there is one)
			fmt.Fprintf(w, "engcutrec %d\n", g.intn(64))
		}
		// the same with a log file that is full (wal_max_size reached): recovery starts a new file instead of reusing the cut one
		fmt.Fprintf(w, "engtrunc %d full\n", g.intn(4000))
		fmt.Fprintf(w, "engcutrec %d full\n", g.intn(64))
		fmt.Fprintf(w, "engflip %d %d\n", g.intn(4000), g.pick(1, 0xff))
	}
}

// a value whose bytes are themselves a complete FULL record carrying a put of key "FAKE"
func embedRecord(g *gen) []byte {
	key, val := []byte("FAKE"), []byte("fabricated")
	pl := []byte{1}
	pl = append(pl, 0x39, 0x30, 0, 0, 0, 0, 0, 0) // seq 12345
	pl = append(pl, byte(len(key)), 0, 0, 0)
	pl = append(pl, key...)
	pl = append(pl, byte(len(val)), 0, 0, 0)
	pl = append(pl, val...)
	c := crc32.ChecksumIEEE(pl)
	rec := []byte{byte(c), byte(c >> 8), byte(c >> 16), byte(c >> 24), byte(len(pl)), byte(len(pl) >> 8), 1}
	rec = append(rec, pl...)
	return append(g.bytesN(g.intn(5)), rec...)
}

type walFaultRun struct {
	walRun
	files  [][]byte
	intact map[string]bool // the entries of the undamaged directory
}

func entriesDigest(es []*wal.Entry) string {
	parts := make([]string, len(es))
	for i, e := range es {
		parts[i] = fmtEntry(e)
	}
	return fmt.Sprintf("%d:%d", len(es), crc32.ChecksumIEEE([]byte(strings.Join(parts, " "))))
}

func (x *walFaultRun) writeDir(dir string, newest []byte) {
	os.MkdirAll(dir, 0755)
	for i, b := range x.files {
		if i == len(x.files)-1 {
			b = newest
		}
		os.WriteFile(filepath.Join(dir, fmt.Sprintf("%020d.wal", i+1)), b, 0644)
	}
}

func (x *walFaultRun) replayDamaged(newest []byte) string {
	d := x.r.tempDir()
	x.writeDir(d, newest)
	es, st := replayDirSafe(d)
	os.RemoveAll(d)
	fab := 0
	for _, e := range es {
		if !x.intact[fmtEntry(e)] {
			fab++
		}
	}
	return st + ":" + entriesDigest(es) + ":" + strconv.Itoa(fab)
}

// engine-level: manifest + damaged log directory; open, digest, write, reopen, compare
func (x *walFaultRun) engineOn(newest []byte, full ...bool) string {
	d := x.r.tempDir()
	defer os.RemoveAll(d)
	cfg := config.NewDefaultConfig(d)
	if len(full) > 0 && full[0] {
		// the newest log file has reached wal_max_size: recovery does not reuse (and so does not cut) it, a new file is started
		cfg.WALMaxSize = 1
	}
	cfg.MaxMemTableAge = 0
	cfg.CompactionInterval = 3600
	cfg.WALSyncMode = config.SyncNone
	if err := cfg.SaveManifest(d); err != nil {
		return "manifesterr"
	}
	x.writeDir(filepath.Join(d, "wal"), newest)
	// the fragmented post-recovery write comes first for every other damaged image (right behind whatever the recovery left)
	return recoverAndProbe(d, (len(newest)+int(crc32.ChecksumIEEE(newest)))%2 == 0)
}

func (x *walFaultRun) step(ws []string) (out string) {
	defer func() {
		if p := recover(); p != nil {
			out = "panic " + strings.ReplaceAll(fmt.Sprint(p), " ", "_")
		}
	}()
	if ws[0] != "seal" && len(x.files) == 0 {
		return "noseal" // (a shrunk script may have lost its seal line)
	}
	switch ws[0] {
	case "seal":
		if x.w == nil {
			return "noseal"
		}
		x.w.Close()
		x.w = nil
		x.files = nil
		for _, f := range walFiles(x.dir) {
			b, _ := os.ReadFile(f)
			x.files = append(x.files, b)
		}
		x.intact = map[string]bool{}
		es, _ := replayDirSafe(x.dir)
		for _, e := range es {
			x.intact[fmtEntry(e)] = true
		}
		return fmt.Sprintf("ok %d %d", len(x.files), len(x.files[len(x.files)-1]))
	case "truncall", "flipall":
		b := x.files[len(x.files)-1]
		var parts []string
		if ws[0] == "truncall" {
			stride, _ := strconv.Atoi(ws[1])
			for off := 0; off <= len(b); off += stride {
				parts = append(parts, fmt.Sprintf("%d:%s", off, x.replayDamaged(b[:off])))
			}
		} else {
			xv, _ := strconv.Atoi(ws[1])
			stride, _ := strconv.Atoi(ws[2])
			for pos := 0; pos < len(b); pos += stride {
				c := append([]byte{}, b...)
				c[pos] ^= byte(xv)
				parts = append(parts, fmt.Sprintf("%d:%s", pos, x.replayDamaged(c)))
			}
		}
		return ws[0] + " " + strconv.Itoa(len(parts)) + " " + strings.Join(parts, " ")
	case "engtrunc":
		b := x.files[len(x.files)-1]
		off, _ := strconv.Atoi(ws[1])
		if len(b) > 0 {
			off %= len(b) + 1
		} else {
			off = 0
		}
		return fmt.Sprintf("eng %d %s", off, x.engineOn(b[:off], len(ws) > 2 && ws[2] == "full"))
	case "engcutrec":
		b := x.files[len(x.files)-1]
		var ends []int
		for off := 0; off+7 <= len(b); {
			l := int(b[off+4]) | int(b[off+5])<<8
			if off+7+l > len(b) {
				break
			}
			off += 7 + l
			ends = append(ends, off)
		}
		// prefer boundaries that are not entry boundaries (record type FIRST=2 / MIDDLE=3 just ended)
		var inner []int
		pos := 0
		for _, e := range ends {
			if t := b[pos+6]; t == 2 || t == 3 {
				inner = append(inner, e)
			}
			pos = e
		}
		if len(inner) > 0 {
			ends = inner
		}
		i, _ := strconv.Atoi(ws[1])
		off := 0
		if len(ends) > 0 {
			off = ends[i%len(ends)]
		}
		return fmt.Sprintf("eng %d %s", off, x.engineOn(b[:off], len(ws) > 2 && ws[2] == "full"))
	case "engflip":
		b := append([]byte{}, x.files[len(x.files)-1]...)
		pos, _ := strconv.Atoi(ws[1])
		xv, _ := strconv.Atoi(ws[2])
		if len(b) > 0 {
			pos %= len(b)
			b[pos] ^= byte(xv)
		}
		return fmt.Sprintf("eng %d %s", pos, x.engineOn(b))
	}
	return ""
}

func runWalFault(r *runner) {
	x := &walFaultRun{walRun: walRun{r: r}}
	for {
		ws, ok := r.next()
		if !ok {
			break
		}
		switch ws[0] {
		case "new", "append", "batch", "rotate":
			r.emit(x.walRun.stepBasic(ws))
		default:
			r.emit(x.step(ws))
		}
	}
	if x.w != nil {
		x.w.Close()
	}
}
