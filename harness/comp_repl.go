package main

// C14 / C15 — end-to-end replication scenarios against the REAL replication manager / primary / replica over
// loopback gRPC. Implementation-only components (no Lean driver): `repl` (convergence) and `replfault`
// (misbehaving replicas). Every case runs in a CHILD PROCESS (`kvharness replchild run`) with a hard timeout:
// several findings on the pinned tree leave goroutines blocked forever (a put stuck in Stream.Send,
// GracefulStop waiting for a stream handler, Replica.Stop waiting for its own loop), and nothing of that may leak
// into the next case.
//
// Script (one output line per line):
//
//	cfg class=<name> expect=converge|clean mem=<bytes> retry=<ms> hbint=<ms> hbto=<ms> empty=0|1 prod=0|1 bound=<ms> hard=<s>
//	primary                               start primary engine + replication.Manager(primary)
//	join <r> | stop <r> | restart <r>     replica engine + replication.Manager(replica); restart = stop, reopen the same directory, start
//	put <k> <v> | del <k> | tx <n> (p|d k v)* | burst <n> <start> <vlen> | burstdel <n> <start> | flush | sleep <ms>
//	bgburst <n> <start> <vlen> <gap_us> | bgwait
//	idle <r> <ms>                         wait until replica r has an open session and has nothing to fetch
//	await <r>                             -> converged <ms> … | diverged missing= wrong= extra= first= … finding=D29|D29b|D30|none
//	(replfault) fault stall|noack|abrupt|slow|ack <id> [arg] ; load <n> <vlen> ; get <k> ; commit <n> ; watchdrop <id> <ms> ; topo ; verdict
//
// Every client operation on the primary runs under a watchdog: `blocked op=<op> cause=lockorder-session|lockorder-pmu|send|unknown…`
// (cause from the goroutine dump); after a deadlocked primary (cause lockorder-*: the repaired defect D38) the remaining lines answer `skipped`.

import (
	"bufio"
	"bytes"
	"context"
	"encoding/hex"
	"errors"
	"fmt"
	"hash/fnv"
	"io"
	"net"
	"os"
	"os/exec"
	"path/filepath"
	"regexp"
	"runtime"
	"sort"
	"strconv"
	"strings"
	"sync"
	"sync/atomic"
	"syscall"
	"time"

	"github.com/KevoDB/kevo/pkg/config"
	"github.com/KevoDB/kevo/pkg/engine"
	"github.com/KevoDB/kevo/pkg/engine/storage"
	"github.com/KevoDB/kevo/pkg/replication"
	rproto "github.com/KevoDB/kevo/proto/kevo/replication"
	"google.golang.org/grpc"
	"google.golang.org/grpc/credentials/insecure"
	"google.golang.org/grpc/metadata"
)

func init() {
	components["repl"] = &component{gen: genRepl, run: replRunIsolated}
	components["replfault"] = &component{gen: genReplFault, run: replRunIsolated}
	components["replchild"] = &component{gen: func(*gen, int, string, *bufio.Writer) {}, run: runReplChild}
}

// ------------------------------------------------------------------------------------------------------------
// parent: split the script into cases, run every case in a child process (a few in parallel), emit in order
// ------------------------------------------------------------------------------------------------------------

type replIsoItem struct {
	comment string   // a '#' line (echoed)
	lines   []string // or the op lines of one case
	out     []string
}

func replRunIsolated(r *runner) {
	var items []*replIsoItem
	var cur *replIsoItem
	for r.in.Scan() {
		line := strings.TrimSpace(r.in.Text())
		if line == "" {
			continue
		}
		if strings.HasPrefix(line, "#") {
			items = append(items, &replIsoItem{comment: line})
			cur = nil
			continue
		}
		if cur == nil {
			cur = &replIsoItem{}
			items = append(items, cur)
		}
		cur.lines = append(cur.lines, line)
	}
	par := 6
	if v, err := strconv.Atoi(os.Getenv("VERIF_REPL_PAR")); err == nil && v > 0 {
		par = v
	}
	sem := make(chan struct{}, par)
	var wg sync.WaitGroup
	for _, it := range items {
		if it.lines == nil {
			continue
		}
		wg.Add(1)
		sem <- struct{}{}
		go func(it *replIsoItem) {
			defer wg.Done()
			defer func() { <-sem }()
			it.out = replRunChildCase(it.lines)
		}(it)
	}
	wg.Wait()
	for _, it := range items {
		if it.lines == nil {
			r.emit(it.comment)
			continue
		}
		for _, o := range it.out {
			r.emit(o)
		}
	}
}

func replCfgInt(line, key string, def int) int {
	for _, w := range strings.Fields(line) {
		if strings.HasPrefix(w, key+"=") {
			if v, err := strconv.Atoi(w[len(key)+1:]); err == nil {
				return v
			}
		}
	}
	return def
}

func replRunChildCase(lines []string) []string {
	out := make([]string, 0, len(lines))
	fill := func(reason string) []string {
		for len(out) < len(lines) {
			out = append(out, "childfail "+reason)
		}
		return out[:len(lines)]
	}
	exe, err := os.Executable()
	if err != nil {
		return fill("no-executable")
	}
	dir, err := os.MkdirTemp("", "kvh-repl-")
	if err != nil {
		return fill("no-tempdir")
	}
	defer os.RemoveAll(dir)
	hard := time.Duration(replCfgInt(lines[0], "hard", 150)) * time.Second
	ctx, cancel := context.WithTimeout(context.Background(), hard)
	defer cancel()
	cmd := exec.CommandContext(ctx, exe, "replchild", "run")
	cmd.Env = append(os.Environ(), "VERIF_CHILD_DIR="+dir)
	cmd.Stdin = strings.NewReader(strings.Join(lines, "\n") + "\n")
	cmd.SysProcAttr = &syscall.SysProcAttr{Setpgid: true, Pdeathsig: syscall.SIGKILL}
	cmd.WaitDelay = 2 * time.Second
	var buf bytes.Buffer
	cmd.Stdout = &buf
	if os.Getenv("VERIF_KEEP_STDERR") != "" {
		cmd.Stderr = os.Stderr
	}
	runErr := cmd.Run()
	for _, l := range strings.Split(buf.String(), "\n") {
		if strings.TrimSpace(l) != "" {
			out = append(out, l)
		}
	}
	if len(out) >= len(lines) {
		return out[:len(lines)]
	}
	reason := "exit"
	if ctx.Err() != nil {
		reason = "hard-timeout"
	} else if runErr != nil {
		reason = strings.ReplaceAll(runErr.Error(), " ", "_")
	}
	return fill(reason)
}

// ------------------------------------------------------------------------------------------------------------
// replSymptoms: the code under test reports its errors only on stdout; the child redirects fd 1 into a pipe and counts
// ------------------------------------------------------------------------------------------------------------

type replSymptoms struct {
	connects, decomp, selfloop, applstream, waitappl, gapAll, gapStart, streamErr, walClosed, initFail, acks, empties int64
	lastGap                                                                                                           atomic.Value // "exp->got" of the last start-of-batch mismatch
}

var replReGapCheck = regexp.MustCompile(`checking for sequence gap\. Expected: (\d+), Got: (\d+)`)

func (s *replSymptoms) feed(line string) {
	switch {
	case strings.Contains(line, "Dialing primary server"):
		atomic.AddInt64(&s.connects, 1)
	case strings.Contains(line, "Error in state"):
		switch {
		case strings.Contains(line, "failed to decompress"):
			atomic.AddInt64(&s.decomp, 1)
		case strings.Contains(line, "STREAMING_ENTRIES -> STREAMING_ENTRIES"):
			atomic.AddInt64(&s.selfloop, 1)
		case strings.Contains(line, "APPLYING_ENTRIES -> STREAMING_ENTRIES"):
			atomic.AddInt64(&s.applstream, 1)
		case strings.Contains(line, "WAITING_FOR_DATA -> APPLYING_ENTRIES"):
			atomic.AddInt64(&s.waitappl, 1)
		default:
			atomic.AddInt64(&s.streamErr, 1)
		}
	case strings.Contains(line, "Sequence gap detected, requesting retransmission"):
		atomic.AddInt64(&s.gapAll, 1)
	case strings.Contains(line, "checking for sequence gap"):
		if m := replReGapCheck.FindStringSubmatch(line); m != nil && m[1] != m[2] {
			atomic.AddInt64(&s.gapStart, 1)
			s.lastGap.Store(m[1] + "->" + m[2])
		}
	case strings.Contains(line, "WAL is closed") || strings.Contains(line, "WAL closed"):
		atomic.AddInt64(&s.walClosed, 1)
	case strings.Contains(line, "SUCCESS: Acknowledgment accepted"):
		atomic.AddInt64(&s.acks, 1)
	case strings.Contains(line, "Received empty batch"):
		atomic.AddInt64(&s.empties, 1)
	}
}

func (s *replSymptoms) capture() {
	pr, pw, err := os.Pipe()
	if err != nil {
		return
	}
	if err := syscall.Dup2(int(pw.Fd()), 1); err != nil {
		return
	}
	go func() {
		rd := bufio.NewReaderSize(pr, 1<<20)
		for {
			line, err := rd.ReadString('\n')
			if len(line) > 0 {
				s.feed(line)
			}
			if err != nil {
				io.Copy(io.Discard, pr)
				return
			}
		}
	}()
}

func (s *replSymptoms) String() string {
	g := atomic.LoadInt64
	return fmt.Sprintf("connects=%d decomp=%d selfloop=%d applstream=%d waitappl=%d gapstart=%d gapin=%d othererr=%d acks=%d",
		g(&s.connects), g(&s.decomp), g(&s.selfloop), g(&s.applstream), g(&s.waitappl), g(&s.gapStart), g(&s.gapAll)-g(&s.gapStart), g(&s.streamErr), g(&s.acks))
}

// ------------------------------------------------------------------------------------------------------------
// child: one world = primary + replicas (+ fault clients)
// ------------------------------------------------------------------------------------------------------------

type replNode struct {
	name string
	dir  string
	eng  *engine.EngineFacade
	fe   *replFailEngine
	arm  map[string]bool // keys whose next replicated apply fails once (survives a restart of the node)
	mgr  *replication.Manager
	addr string
	// reslow: key -> a RE-application of it (it was applied before in this run of the replica) sleeps that many ms
	reslow map[string]int
	// sampler of the applied sequence the replica reports (one per run of the replica): it must never decrease
	stopMono chan struct{}
	monoMu   sync.Mutex
	regress  string
}

func (n *replNode) watchApplied() {
	stop := make(chan struct{})
	n.stopMono = stop
	mgr := n.mgr
	go func() {
		var hi uint64
		for {
			select {
			case <-stop:
				return
			default:
			}
			_, _, _, last, _ := mgr.GetNodeInfo()
			if last < hi {
				n.monoMu.Lock()
				if n.regress == "" {
					n.regress = fmt.Sprintf("%s:%d->%d", n.name, hi, last)
				}
				n.monoMu.Unlock()
			}
			if last > hi {
				hi = last
			}
			time.Sleep(300 * time.Microsecond)
		}
	}()
}

// replFailEngine: the replica's engine as the replication manager sees it. One replicated put / delete of an armed key
// fails once (a transient apply failure: the disk was full for a moment, the log was rotating); everything else goes
// straight to the real engine.
type replFailEngine struct {
	*engine.EngineFacade
	mu      sync.Mutex
	armed   map[string]bool
	failed  int
	slow    map[string]int           // key -> the next replicated apply of it sleeps that many ms (slowapply)
	started map[string]chan struct{} // closed when that slow apply has begun
	log     []string                 // every replicated operation this incarnation of the replica applied successfully, in order
	reslow  map[string]int
	done    map[string]bool // keys applied at least once by this incarnation
}

func replOpTok(kind string, key, value []byte) string {
	h := fnv.New64a()
	h.Write(value)
	return fmt.Sprintf("%s:%x:%d:%x", kind, key, len(value), h.Sum64())
}

func (f *replFailEngine) record(tok string) {
	f.mu.Lock()
	f.log = append(f.log, tok)
	if f.done == nil {
		f.done = map[string]bool{}
	}
	if ps := strings.SplitN(tok, ":", 3); len(ps) == 3 {
		if k, err := hex.DecodeString(ps[1]); err == nil {
			f.done[string(k)] = true
		}
	}
	f.mu.Unlock()
}

// delay: see `slowapply` — keeps the replica's loop inside its apply handler for a while
func (f *replFailEngine) delay(key []byte) {
	f.mu.Lock()
	if again := f.reslow[string(key)]; again > 0 && f.done[string(key)] {
		f.mu.Unlock()
		time.Sleep(time.Duration(again) * time.Millisecond)
		f.mu.Lock()
	}
	ms, ok := f.slow[string(key)]
	ch := f.started[string(key)]
	if ok {
		delete(f.slow, string(key))
	}
	f.mu.Unlock()
	if ok {
		if ch != nil {
			close(ch)
		}
		time.Sleep(time.Duration(ms) * time.Millisecond)
	}
}

func (f *replFailEngine) trip(key []byte) bool {
	f.mu.Lock()
	defer f.mu.Unlock()
	if f.armed[string(key)] {
		delete(f.armed, string(key))
		f.failed++
		return true
	}
	return false
}

func (f *replFailEngine) PutInternal(key, value []byte) error {
	f.delay(key)
	if f.trip(key) {
		return errors.New("injected transient apply failure")
	}
	err := f.EngineFacade.PutInternal(key, value)
	if err == nil {
		f.record(replOpTok("p", key, value))
	}
	return err
}

func (f *replFailEngine) DeleteInternal(key []byte) error {
	f.delay(key)
	if f.trip(key) {
		return errors.New("injected transient apply failure")
	}
	err := f.EngineFacade.DeleteInternal(key)
	if err == nil {
		f.record(replOpTok("d", key, nil))
	}
	return err
}

type replFaultClient struct {
	kind   string
	id     string
	addr   string // listener address announced to the primary
	conn   *grpc.ClientConn
	raw    atomic.Value // net.Conn of the transport (abrupt close)
	cancel context.CancelFunc
	recvd  int64
	bytes  int64
	ended  atomic.Value // error string once the stream ended
}

type replWorld struct {
	preloaded int // keys written by `preload` so far
	r         *runner
	base      string
	cfgLine   string
	prim      *replNode
	reps      map[string]*replNode
	faults    map[string]*replFaultClient
	sym       *replSymptoms
	bg        sync.WaitGroup
	txSeqs    map[uint64]int // sequence number -> number of entries, for committed multi-entry transactions
	// replfault bookkeeping
	blocked  []string
	failed   []string
	notDrop  []string
	maxLatMs int64
	loadKeys int
	cause    string // diagnosis of the first blocked operation
	// exactly-once observation: the primary's operations in log order, and the first replica incarnation whose apply log is
	// not a subsequence of it (an operation applied twice, or out of order)
	hist      []string
	histMu    sync.Mutex
	applyProb string
	proxy     *replProxy
}

// replProxy: a TCP relay in front of the primary's replication listener (cfg proxy=1), so that the network between replica and
// primary can be cut (`outage`): every relayed connection is closed and new ones are refused until the outage ends.
type replProxy struct {
	addr   string
	target string
	ln     net.Listener
	mu     sync.Mutex
	conns  map[net.Conn]bool
	down   bool
}

func newReplProxy(target string) (*replProxy, error) {
	addr := replFreePort()
	ln, err := net.Listen("tcp", addr)
	if err != nil {
		return nil, err
	}
	p := &replProxy{addr: addr, target: target, ln: ln, conns: map[net.Conn]bool{}}
	go func() {
		for {
			c, err := ln.Accept()
			if err != nil {
				return
			}
			p.mu.Lock()
			down := p.down
			p.mu.Unlock()
			if down {
				c.Close()
				continue
			}
			u, err := net.DialTimeout("tcp", p.target, 2*time.Second)
			if err != nil {
				c.Close()
				continue
			}
			p.mu.Lock()
			p.conns[c], p.conns[u] = true, true
			p.mu.Unlock()
			go func() { io.Copy(u, c); u.Close(); c.Close() }()
			go func() { io.Copy(c, u); u.Close(); c.Close() }()
		}
	}()
	return p, nil
}

func (p *replProxy) cut(down bool) {
	p.mu.Lock()
	p.down = down
	for c := range p.conns {
		c.Close()
	}
	p.conns = map[net.Conn]bool{}
	p.mu.Unlock()
}

func (w *replWorld) record(toks ...string) {
	w.histMu.Lock()
	w.hist = append(w.hist, toks...)
	w.histMu.Unlock()
}

// applyCheck: the operations one incarnation of a replica applied must be a subsequence of the primary's log (each operation at
// most once, in log order); gaps are not judged here (that is convergence). Returns "" or a description.
func (w *replWorld) applyCheck(n *replNode) string {
	if n == nil || n.fe == nil {
		return ""
	}
	n.fe.mu.Lock()
	log := append([]string(nil), n.fe.log...)
	n.fe.mu.Unlock()
	w.histMu.Lock()
	hist := append([]string(nil), w.hist...)
	w.histMu.Unlock()
	// per key: writers may run concurrently (bgburst), so only the order of the operations on ONE key is determined by the script
	keyOf := func(op string) string { return strings.SplitN(op, ":", 3)[1] }
	hk := map[string][]string{}
	for _, op := range hist {
		hk[keyOf(op)] = append(hk[keyOf(op)], op)
	}
	pos := map[string]int{}
	for i, op := range log {
		k := keyOf(op)
		h := hk[k]
		j := pos[k]
		for j < len(h) && h[j] != op {
			j++
		}
		if j == len(h) {
			first := -1
			for x := 0; x < i; x++ {
				if log[x] == op {
					first = x
					break
				}
			}
			return fmt.Sprintf("%s:apply#%d=%s_not-in-log-order(same-operation-applied-before-at#%d,applied=%d,logged=%d)", n.name, i, op, first, len(log), len(hist))
		}
		pos[k] = j + 1
	}
	return ""
}

func (w *replWorld) monoOf(n *replNode) string {
	for _, x := range w.reps {
		x.monoMu.Lock()
		r := x.regress
		x.monoMu.Unlock()
		if r != "" {
			return "regressed:" + r
		}
	}
	return "ok"
}

func (w *replWorld) noteApply(n *replNode) {
	if p := w.applyCheck(n); p != "" && w.applyProb == "" {
		w.applyProb = p
	}
}

func (w *replWorld) cfg(key string, def int) int { return replCfgInt(w.cfgLine, key, def) }

var replPortCounter int32

// replFreePort picks a port below the kernel's ephemeral range (32768..60999), partitioned by pid, so that neither outgoing
// connections nor other harness processes can take it between the probe and the manager's own net.Listen.
func replFreePort() string {
	pid := os.Getpid()
	for try := 0; try < 400; try++ {
		k := int(atomic.AddInt32(&replPortCounter, 1))
		port := 20000 + ((pid*37+k*1009+try)%11000+11000)%11000
		ln, err := net.Listen("tcp", fmt.Sprintf("127.0.0.1:%d", port))
		if err != nil {
			continue
		}
		ln.Close()
		return fmt.Sprintf("127.0.0.1:%d", port)
	}
	return "127.0.0.1:0"
}

func replOpenEngine(dir string, mem int, prod bool) (*engine.EngineFacade, error) {
	if _, err := os.Stat(filepath.Join(dir, "MANIFEST")); err != nil && !prod {
		os.MkdirAll(dir, 0755)
		cfg := config.NewDefaultConfig(dir)
		if mem > 0 {
			cfg.MemTableSize = int64(mem)
		}
		cfg.MaxMemTables = 4
		cfg.MaxMemTableAge = 0
		cfg.CompactionInterval = 3600
		cfg.WALSyncMode = config.SyncNone
		if err := cfg.SaveManifest(dir); err != nil {
			return nil, err
		}
	}
	return engine.NewEngineFacade(dir)
}

func (w *replWorld) startPrimary() string {
	n := &replNode{name: "primary", dir: filepath.Join(w.base, "primary")}
	prod := w.cfg("prod", 0) == 1
	e, err := replOpenEngine(n.dir, w.cfg("mem", 0), prod)
	if err != nil {
		return "err open " + errTok(err)
	}
	n.eng = e
	n.addr = replFreePort()
	mc := &replication.ManagerConfig{Enabled: true, Mode: replication.ReplicationModePrimary, ListenAddr: n.addr, ForceReadOnly: true}
	if !prod {
		pc := replication.DefaultPrimaryConfig()
		pc.HeartbeatConfig = &replication.HeartbeatConfig{
			Interval:           time.Duration(w.cfg("hbint", 10000)) * time.Millisecond,
			Timeout:            time.Duration(w.cfg("hbto", 30000)) * time.Millisecond,
			SendEmptyResponses: w.cfg("empty", 1) == 1,
		}
		mc.PrimaryConfig = pc
	}
	m, err := replication.NewManager(e, mc)
	if err != nil {
		return "err manager " + errTok(err)
	}
	if err := m.Start(); err != nil {
		return "err start " + errTok(err)
	}
	n.mgr = m
	w.prim = n
	if w.cfg("proxy", 0) == 1 {
		p, err := newReplProxy(n.addr)
		if err != nil {
			return "err proxy " + errTok(err)
		}
		w.proxy = p
	}
	// the listener is created in a goroutine: wait until it accepts
	deadline := time.Now().Add(patience(5 * time.Second))
	for time.Now().Before(deadline) {
		c, err := net.DialTimeout("tcp", n.addr, 200*time.Millisecond)
		if err == nil {
			c.Close()
			return "ok"
		}
		time.Sleep(10 * time.Millisecond)
	}
	return "err listen"
}

func (w *replWorld) startReplica(name string) string {
	n := w.reps[name]
	if n == nil {
		n = &replNode{name: name, dir: filepath.Join(w.base, "replica-"+name), addr: "replica-" + name + ":7"}
		w.reps[name] = n
	}
	if n.mgr != nil {
		return "err already-running"
	}
	prod := w.cfg("prod", 0) == 1
	e, err := replOpenEngine(n.dir, 0, prod)
	if err != nil {
		return "err open " + errTok(err)
	}
	n.eng = e
	if n.arm == nil {
		n.arm = map[string]bool{}
	}
	n.fe = &replFailEngine{EngineFacade: e, armed: n.arm, reslow: n.reslow}
	paddr := w.prim.addr
	if w.proxy != nil {
		paddr = w.proxy.addr
	}
	mc := &replication.ManagerConfig{Enabled: true, Mode: replication.ReplicationModeReplica, PrimaryAddr: paddr, ListenAddr: n.addr, ForceReadOnly: true}
	if !prod {
		rc := replication.DefaultReplicaConfig()
		rc.Connection.RetryBaseDelay = time.Duration(w.cfg("retry", 1000)) * time.Millisecond
		rc.Connection.DialTimeout = 3 * time.Second
		mc.ReplicaConfig = rc
	}
	m, err := replication.NewManager(n.fe, mc)
	if err != nil {
		return "err manager " + errTok(err)
	}
	if err := m.Start(); err != nil {
		return "err start " + errTok(err)
	}
	n.mgr = m
	n.watchApplied()
	return "ok"
}

// stopReplica: Manager.Stop -> Replica.Stop. On the pinned tree Replica.Stop held Replica.mu while waiting for the
// replication loop, which itself takes Replica.mu in several handlers: it could hang for ever (D43, repaired: the lock is
// released while waiting). A stop that does not return within 5 s is reported (`hung stop`): restart of a replica is part
// of C14, "every call returns" of C07. The old objects are abandoned so that the script can go on.
func (w *replWorld) stopReplica(name string) string {
	n := w.reps[name]
	if n == nil || n.mgr == nil {
		return "err not-running"
	}
	res := "ok"
	w.noteApply(n)
	if n.stopMono != nil {
		close(n.stopMono)
		n.stopMono = nil
	}
	done := make(chan struct{})
	go func() { n.mgr.Stop(); close(done) }()
	select {
	case <-done:
	case <-time.After(patience(5 * time.Second)):
		res = "hung stop"
	}
	n.mgr = nil
	cl := make(chan struct{})
	go func() { n.eng.Close(); close(cl) }()
	select {
	case <-cl:
	case <-time.After(patience(5 * time.Second)):
		if res == "ok" {
			res = "hung close"
		}
	}
	n.eng = nil
	return res
}

func replScanAll(e *engine.EngineFacade) (map[string]string, error) {
	it, err := e.GetIterator()
	if err != nil {
		return nil, err
	}
	m := map[string]string{}
	for it.SeekToFirst(); it.Valid(); it.Next() {
		if it.IsTombstone() {
			continue
		}
		m[string(it.Key())] = string(it.Value())
	}
	return m, nil
}

func (w *replWorld) primSeq() uint64 {
	if wl := w.prim.eng.GetWAL(); wl != nil {
		return wl.GetNextSequence() - 1
	}
	return 0
}

func (n *replNode) applied() uint64 {
	if n.mgr == nil {
		return 0
	}
	_, _, _, last, _ := n.mgr.GetNodeInfo()
	return last
}

type replPrimView struct {
	observedSeq uint64
	sessions    []map[string]interface{}
}

func (w *replWorld) primStatus() replPrimView {
	var v replPrimView
	st := w.prim.mgr.Status()
	if x, ok := st["current_wal_sequence"].(uint64); ok {
		v.observedSeq = x
	}
	if x, ok := st["replicas"].([]map[string]interface{}); ok {
		v.sessions = x
	}
	return v
}

func (w *replWorld) sessionOf(addr string) map[string]interface{} {
	for _, s := range w.primStatus().sessions {
		if s["listener_address"] == addr {
			return s
		}
	}
	return nil
}

func replDiffMaps(p, r map[string]string) (missing, wrong, extra int, first string) {
	var keys []string
	for k := range p {
		keys = append(keys, k)
	}
	for k := range r {
		if _, ok := p[k]; !ok {
			keys = append(keys, k)
		}
	}
	sort.Strings(keys)
	for _, k := range keys {
		pv, inP := p[k]
		rv, inR := r[k]
		bad := false
		switch {
		case inP && !inR:
			missing++
			bad = true
		case !inP && inR:
			extra++
			bad = true
		case pv != rv:
			wrong++
			bad = true
		}
		if bad && first == "" {
			first = hx([]byte(k))
		}
	}
	return
}

func (w *replWorld) await(name string) string {
	n := w.reps[name]
	if n == nil || n.eng == nil {
		return "err not-running"
	}
	if _, blocked, _ := replGuarded(6*replWatchdog, func() error { w.bg.Wait(); return nil }); blocked {
		w.cause = replDiagnoseBlock()
		return fmt.Sprintf("blocked op=bgburst cause=%s", w.cause)
	}
	bound := patience(time.Duration(w.cfg("bound", 20000)) * time.Millisecond)
	stay := time.Duration(w.cfg("stay", 1500)) * time.Millisecond
	start := time.Now()
	pm, err := replScanAll(w.prim.eng)
	if err != nil {
		return "err scan-primary " + errTok(err)
	}
	pseq := w.primSeq()
	var okSince time.Time
	flaps := 0
	var rm map[string]string
	for {
		rm, err = replScanAll(n.eng)
		good := err == nil && len(rm) == len(pm)
		if good {
			mi, wr, ex, _ := replDiffMaps(pm, rm)
			good = mi+wr+ex == 0
		}
		if good && n.applied() < pseq {
			good = false
		}
		now := time.Now()
		if good {
			if okSince.IsZero() {
				okSince = now
			}
			if now.Sub(okSince) >= stay {
				w.noteApply(n)
				al := "ok"
				if w.applyProb != "" {
					al = w.applyProb
				}
				return fmt.Sprintf("converged %d keys=%d primseq=%d applied=%d flaps=%d %s applylog=%s monotone=%s", okSince.Sub(start).Milliseconds(), len(pm), pseq, n.applied(), flaps, w.sym, al, w.monoOf(n))
			}
		} else {
			if !okSince.IsZero() {
				flaps++
			}
			okSince = time.Time{}
			if now.Sub(start) > bound {
				break
			}
		}
		time.Sleep(40 * time.Millisecond)
	}
	if rm == nil {
		rm = map[string]string{}
	}
	mi, wr, ex, first := replDiffMaps(pm, rm)
	applied := n.applied()
	pv := w.primStatus()
	stale := 0
	if pv.observedSeq != pseq {
		stale = 1
	}
	rot := len(walFiles(filepath.Join(w.prim.dir, "wal"))) - 1
	startSeq, lastAck := uint64(0), uint64(0)
	if s := w.sessionOf(n.addr); s != nil {
		startSeq, _ = s["start_sequence"].(uint64)
		lastAck, _ = s["last_ack_sequence"].(uint64)
	}
	state := "-"
	if st, ok := n.mgr.Status()["state"].(string); ok {
		state = st
	}
	finding := "none"
	gapin := atomic.LoadInt64(&w.sym.gapAll) - atomic.LoadInt64(&w.sym.gapStart)
	txat := w.sharedSeqInWindow(applied+1, 100)
	splitat := w.sharedSeqAtLimit(100)
	switch {
	case gapin > 0 && txat > 0:
		finding = "D29"
	case gapin == 0 && stale == 0 && applied == pseq && splitat > 0:
		finding = "D29b"
	case stale == 1 && rot > 0:
		finding = "D30"
	}
	w.noteApply(n)
	al := "ok"
	if w.applyProb != "" {
		al = w.applyProb
	}
	return fmt.Sprintf("diverged missing=%d wrong=%d extra=%d first=%s primseq=%d applied=%d txat=%d splitat=%d stale=%d rot=%d observed=%d startseq=%d lastack=%d state=%s flaps=%d %s finding=%s applylog=%s monotone=%s",
		mi, wr, ex, first, pseq, applied, txat, splitat, stale, rot, pv.observedSeq, startSeq, lastAck, state, flaps, w.sym, finding, al, w.monoOf(n))
}

// sharedSeqInWindow: the first sequence number carried by two or more of the first `limit` log entries with sequence >= from
// (0 = none): the batch the primary sends for cursor `from` then contains entries sharing one number.
func (w *replWorld) sharedSeqInWindow(from uint64, limit int) uint64 {
	if wl := w.prim.eng.GetWAL(); wl != nil {
		wl.Sync()
	}
	es, _ := replayDirSafe(filepath.Join(w.prim.dir, "wal"))
	n := 0
	var prev uint64
	for _, e := range es {
		if e.SequenceNumber < from {
			continue
		}
		if n > 0 && e.SequenceNumber == prev {
			return prev
		}
		prev = e.SequenceNumber
		n++
		if n >= limit {
			break
		}
	}
	return 0
}

// sharedSeqAtLimit: a sequence number shared by several entries whose FIRST entry is the last entry of a message when the
// log is fetched from the start in messages of `limit` entries (0 = none): that message is consecutive, the cursor moves
// past the shared number, the other entries of the transaction are never selected again.
func (w *replWorld) sharedSeqAtLimit(limit int) uint64 {
	es, _ := replayDirSafe(filepath.Join(w.prim.dir, "wal"))
	for i := 0; i+1 < len(es); i++ {
		if es[i].SequenceNumber == es[i+1].SequenceNumber && (i == 0 || es[i-1].SequenceNumber != es[i].SequenceNumber) && i%limit == limit-1 {
			return es[i].SequenceNumber
		}
	}
	return 0
}

// idle: the replica has an open session on the primary whose start sequence is beyond the primary's log (nothing to fetch)
func (w *replWorld) idle(name string, ms int) string {
	n := w.reps[name]
	if n == nil || n.mgr == nil {
		return "err not-running"
	}
	deadline := time.Now().Add(patience(time.Duration(ms) * time.Millisecond))
	for time.Now().Before(deadline) {
		if s := w.sessionOf(n.addr); s != nil {
			if ss, _ := s["start_sequence"].(uint64); ss == w.primSeq()+1 {
				time.Sleep(150 * time.Millisecond)
				if s2 := w.sessionOf(n.addr); s2 != nil && s2["id"] == s["id"] {
					return "ok"
				}
			}
		}
		time.Sleep(20 * time.Millisecond)
	}
	return "err not-idle"
}

func replBurstKey(i int) []byte { return []byte(fmt.Sprintf("k%06d", i)) }

func replBurstVal(i, vlen int) []byte {
	b := make([]byte, vlen)
	x := uint32(i)*2654435761 + 12345
	for j := range b {
		x = x*1664525 + 1013904223
		b[j] = byte(x >> 24)
	}
	return b
}

func (w *replWorld) write(ws []string) error {
	e := w.prim.eng
	switch ws[0] {
	case "put":
		err := e.Put(unhx(ws[1]), unhx(ws[2]))
		if err == nil {
			w.record(replOpTok("p", unhx(ws[1]), unhx(ws[2])))
		}
		return err
	case "putbig": // putbig <key> <size>: a value of that many bytes (deterministic pattern)
		n, _ := strconv.Atoi(ws[2])
		v := make([]byte, n)
		for i := range v {
			v[i] = byte(i*7 + n)
		}
		err := e.Put(unhx(ws[1]), v)
		if err == nil {
			w.record(replOpTok("p", unhx(ws[1]), v))
		}
		return err
	case "del":
		err := e.Delete(unhx(ws[1]))
		if err == nil {
			w.record(replOpTok("d", unhx(ws[1]), nil))
		}
		return err
	case "tx":
		tx, err := e.BeginTransaction(false)
		if err != nil {
			return err
		}
		ops := parseEngOps(ws[2:])
		for _, o := range ops {
			if o[0] == "d" {
				err = tx.Delete(unhx(o[1]))
			} else {
				err = tx.Put(unhx(o[1]), unhx(o[2]))
			}
			if err != nil {
				tx.Rollback()
				return err
			}
		}
		before := w.primSeq()
		if err := tx.Commit(); err != nil {
			return err
		}
		if after := w.primSeq(); after == before+1 && len(ops) >= 2 {
			w.txSeqs[after] = len(ops)
		}
		// the commit logs the buffered operations in key order
		sorted := append([][3]string(nil), ops...)
		sort.SliceStable(sorted, func(i, j int) bool { return bytes.Compare(unhx(sorted[i][1]), unhx(sorted[j][1])) < 0 })
		for _, o := range sorted {
			if o[0] == "d" {
				w.record(replOpTok("d", unhx(o[1]), nil))
			} else {
				w.record(replOpTok("p", unhx(o[1]), unhx(o[2])))
			}
		}
		return nil
	case "burst":
		n, _ := strconv.Atoi(ws[1])
		start, _ := strconv.Atoi(ws[2])
		vlen, _ := strconv.Atoi(ws[3])
		for i := 0; i < n; i++ {
			if err := e.Put(replBurstKey(start+i), replBurstVal(start+i, vlen)); err != nil {
				return err
			}
			w.record(replOpTok("p", replBurstKey(start+i), replBurstVal(start+i, vlen)))
		}
		return nil
	case "burstdel":
		n, _ := strconv.Atoi(ws[1])
		start, _ := strconv.Atoi(ws[2])
		for i := 0; i < n; i++ {
			if err := e.Delete(replBurstKey(start + i)); err != nil {
				return err
			}
			w.record(replOpTok("d", replBurstKey(start+i), nil))
		}
		return nil
	case "flush":
		return e.FlushImMemTables()
	}
	return errors.New("bad-op")
}

func (w *replWorld) step(ws []string) (out string) {
	defer func() {
		if p := recover(); p != nil {
			out = "panic " + strings.ReplaceAll(fmt.Sprint(p), " ", "_")
		}
	}()
	if ws[0] != "cfg" && ws[0] != "primary" && ws[0] != "preload" && w.prim == nil {
		return "err no-primary"
	}
	if w.cause != "" && w.cause != "send" && ws[0] != "verdict" {
		return "skipped primary-blocked" // nothing after a deadlocked primary means anything
	}
	switch ws[0] {
	case "cfg":
		w.cfgLine = strings.Join(ws, " ")
		return "ok"
	case "primary":
		return w.startPrimary()
	case "join":
		return w.startReplica(ws[1])
	case "stop":
		return w.stopReplica(ws[1])
	case "restart":
		s := w.stopReplica(ws[1])
		if !strings.HasPrefix(s, "ok") && !strings.HasPrefix(s, "hung") {
			return s
		}
		if r := w.startReplica(ws[1]); r != "ok" || s == "ok" {
			return r
		}
		return s // the replica was started again, but its stop had hung
	case "reslow": // reslow <replica> <key> <ms>: BEFORE join: whenever that replica applies <key> AGAIN in one run, the apply takes <ms>
		n := w.reps[ws[1]]
		if n == nil {
			n = &replNode{name: ws[1], dir: filepath.Join(w.base, "replica-"+ws[1]), addr: "replica-" + ws[1] + ":7", arm: map[string]bool{}}
			w.reps[ws[1]] = n
		}
		if n.reslow == nil {
			n.reslow = map[string]int{}
		}
		ms, _ := strconv.Atoi(ws[3])
		n.reslow[string(unhx(ws[2]))] = ms
		return "ok"
	case "failapply": // failapply <replica> <key>: the next replicated apply of this key on that replica fails once
		n := w.reps[ws[1]]
		if n == nil {
			n = &replNode{name: ws[1], dir: filepath.Join(w.base, "replica-"+ws[1]), addr: "replica-" + ws[1] + ":7", arm: map[string]bool{}}
			w.reps[ws[1]] = n
		}
		if n.arm == nil {
			n.arm = map[string]bool{}
		}
		if n.fe != nil {
			n.fe.mu.Lock()
			n.arm[string(unhx(ws[2]))] = true
			n.fe.mu.Unlock()
		} else {
			n.arm[string(unhx(ws[2]))] = true
		}
		return "ok"
	case "preload": // preload <n> <vlen> <flush>: BEFORE `primary`: an earlier run of the primary's engine writes n keys, flushes (log rotation) or not, and closes
		if w.prim != nil {
			return "err primary-running"
		}
		n, _ := strconv.Atoi(ws[1])
		vlen, _ := strconv.Atoi(ws[2])
		e, err := replOpenEngine(filepath.Join(w.base, "primary"), w.cfg("mem", 0), w.cfg("prod", 0) == 1)
		if err != nil {
			return "err open " + errTok(err)
		}
		for i := 0; i < n; i++ {
			w.preloaded++
			if err := e.Put([]byte(fmt.Sprintf("pre%05d", w.preloaded)), bytes.Repeat([]byte{byte('a' + w.preloaded%26)}, vlen)); err != nil {
				e.Close()
				return "err put " + errTok(err)
			}
			w.record(replOpTok("p", []byte(fmt.Sprintf("pre%05d", w.preloaded)), bytes.Repeat([]byte{byte('a' + w.preloaded%26)}, vlen)))
		}
		if ws[3] == "1" {
			if err := e.FlushImMemTables(); err != nil {
				e.Close()
				return "err flush " + errTok(err)
			}
		}
		if err := e.Close(); err != nil {
			return "err close " + errTok(err)
		}
		return "ok"
	case "outage": // outage <ms>: the network between the replicas and the primary is cut (every connection closed, none accepted) for <ms>
		if w.proxy == nil {
			return "err no-proxy"
		}
		ms, _ := strconv.Atoi(ws[1])
		w.proxy.cut(true)
		time.Sleep(time.Duration(ms) * time.Millisecond)
		w.proxy.cut(false)
		return "ok"
	case "slowapply": // slowapply <replica> <key> <ms>: the next replicated put of this key on that (running) replica takes <ms>
		n := w.reps[ws[1]]
		if n == nil || n.fe == nil {
			return "err not-running"
		}
		ms, _ := strconv.Atoi(ws[3])
		n.fe.mu.Lock()
		if n.fe.slow == nil {
			n.fe.slow, n.fe.started = map[string]int{}, map[string]chan struct{}{}
		}
		n.fe.slow[string(unhx(ws[2]))] = ms
		n.fe.started[string(unhx(ws[2]))] = make(chan struct{})
		n.fe.mu.Unlock()
		return "ok"
	case "stopduring": // stopduring <replica> <key>: wait until the slow apply of <key> has begun, then stop the replica and start it again
		n := w.reps[ws[1]]
		if n == nil || n.fe == nil {
			return "err not-running"
		}
		n.fe.mu.Lock()
		ch := n.fe.started[string(unhx(ws[2]))]
		n.fe.mu.Unlock()
		if ch == nil {
			return "err not-armed"
		}
		select {
		case <-ch:
		case <-time.After(patience(8 * time.Second)):
			return "ok never-applied" // the entry never reached the replica within 8 s: nothing to stop into
		}
		s := w.stopReplica(ws[1])
		if !strings.HasPrefix(s, "ok") && !strings.HasPrefix(s, "hung") {
			return s
		}
		if r := w.startReplica(ws[1]); r != "ok" || s == "ok" {
			return r
		}
		return s
	case "clientput": // clientput <replica> <key> <value>: a CLIENT write sent to the replica's engine: refused (the node is a replica)
		n := w.reps[ws[1]]
		if n == nil || n.eng == nil {
			return "err not-running"
		}
		type cres struct{ err error }
		ch := make(chan cres, 1)
		go func() { ch <- cres{n.eng.Put(unhx(ws[2]), unhx(ws[3]))} }()
		select {
		case r := <-ch:
			if r.err == nil {
				return "clientput accepted"
			}
			return "clientput refused"
		case <-time.After(patience(5 * time.Second)):
			return "clientput hung"
		}
	case "stopmgr": // stopmgr <replica>: replication is stopped (Manager.Stop), the engine stays open and serves clients
		n := w.reps[ws[1]]
		if n == nil || n.mgr == nil {
			return "err not-running"
		}
		w.noteApply(n)
		if n.stopMono != nil {
			close(n.stopMono)
			n.stopMono = nil
		}
		done := make(chan struct{})
		go func() { n.mgr.Stop(); close(done) }()
		select {
		case <-done:
		case <-time.After(patience(5 * time.Second)):
			n.mgr = nil
			return "hung stop"
		}
		n.mgr = nil
		return "ok"
	case "txrefused": // txrefused <key> <size>: a transaction the primary's log refuses (one value beyond a log record): nothing is written
		sz, _ := strconv.Atoi(ws[2])
		err, blocked, _ := replGuarded(2*replWatchdog, func() error {
			tx, err := w.prim.eng.BeginTransaction(false)
			if err != nil {
				return err
			}
			tx.Put([]byte("refused-small"), []byte("x"))
			tx.Put(unhx(ws[1]), make([]byte, sz))
			if cerr := tx.Commit(); cerr == nil {
				return errors.New("oversized-commit-accepted")
			}
			tx.Rollback()
			return nil
		})
		if blocked {
			w.cause = replDiagnoseBlock()
			return fmt.Sprintf("blocked op=%s cause=%s", ws[0], w.cause)
		}
		if err != nil {
			return "err " + errTok(err)
		}
		return "ok"
	case "put", "putbig", "del", "tx", "burst", "burstdel", "flush":
		err, blocked, _ := replGuarded(2*replWatchdog, func() error { return w.write(ws) })
		if blocked {
			w.cause = replDiagnoseBlock()
			return fmt.Sprintf("blocked op=%s cause=%s", ws[0], w.cause)
		}
		if err != nil {
			return "err " + errTok(err)
		}
		return "ok"
	case "bgburst":
		n, _ := strconv.Atoi(ws[1])
		start, _ := strconv.Atoi(ws[2])
		vlen, _ := strconv.Atoi(ws[3])
		gap, _ := strconv.Atoi(ws[4])
		w.bg.Add(1)
		go func() {
			defer w.bg.Done()
			for i := 0; i < n; i++ {
				if w.prim.eng.Put(replBurstKey(start+i), replBurstVal(start+i, vlen)) == nil {
					w.record(replOpTok("p", replBurstKey(start+i), replBurstVal(start+i, vlen)))
				}
				if i < n-8 { // the tail is written back to back
					time.Sleep(time.Duration(gap) * time.Microsecond)
				}
			}
		}()
		return "ok"
	case "bgwait":
		_, blocked, _ := replGuarded(6*replWatchdog, func() error { w.bg.Wait(); return nil })
		if blocked {
			w.cause = replDiagnoseBlock()
			return fmt.Sprintf("blocked op=bgburst cause=%s", w.cause)
		}
		return "ok"
	case "sleep":
		ms, _ := strconv.Atoi(ws[1])
		time.Sleep(time.Duration(ms) * time.Millisecond)
		return "ok"
	case "idle":
		ms, _ := strconv.Atoi(ws[2])
		return w.idle(ws[1], ms)
	case "await":
		return w.await(ws[1])
	// ---- replfault
	case "fault":
		arg := ""
		if len(ws) > 3 {
			arg = ws[3]
		}
		return w.startFault(ws[1], ws[2], arg)
	case "load":
		n, _ := strconv.Atoi(ws[1])
		vlen, _ := strconv.Atoi(ws[2])
		return w.load(n, vlen)
	case "get":
		return w.guardedGet(ws[1])
	case "commit":
		n, _ := strconv.Atoi(ws[1])
		return w.guardedCommit(n)
	case "watchdrop":
		ms, _ := strconv.Atoi(ws[2])
		return w.watchDrop(ws[1], ms)
	case "topo":
		return w.topo()
	case "verdict":
		return w.verdict()
	}
	return "bad-op"
}

func runReplChild(r *runner) {
	base := os.Getenv("VERIF_CHILD_DIR")
	if base == "" {
		base = r.tempDir()
	}
	w := &replWorld{r: r, base: base, reps: map[string]*replNode{}, faults: map[string]*replFaultClient{}, sym: &replSymptoms{}, txSeqs: map[uint64]int{}}
	w.sym.capture()
	for {
		ws, ok := r.next()
		if !ok {
			break
		}
		r.emit(w.step(ws))
	}
	r.out.Flush()
	// no graceful shutdown: Manager.Stop of a primary waits for its stream handlers (GracefulStop) and may never return
	os.Exit(0)
}

// ------------------------------------------------------------------------------------------------------------
// replfault: fault-injected clients of the replication stream, replGuarded client operations on the primary
// ------------------------------------------------------------------------------------------------------------

const replWatchdog = 5 * time.Second

func (w *replWorld) startFault(kind, id, arg string) string {
	f := &replFaultClient{kind: kind, id: id, addr: "fault-" + id + ":9"}
	dialer := func(ctx context.Context, addr string) (net.Conn, error) {
		c, err := (&net.Dialer{}).DialContext(ctx, "tcp", addr)
		if err == nil {
			f.raw.Store(c)
		}
		return c, err
	}
	conn, err := grpc.NewClient(w.prim.addr, grpc.WithTransportCredentials(insecure.NewCredentials()), grpc.WithContextDialer(dialer))
	if err != nil {
		return "err dial " + errTok(err)
	}
	f.conn = conn
	ctx, cancel := context.WithCancel(context.Background())
	f.cancel = cancel
	cl := rproto.NewWALReplicationServiceClient(conn)
	stream, err := cl.StreamWAL(ctx, &rproto.WALStreamRequest{StartSequence: 1, ProtocolVersion: 1, CompressionSupported: true,
		PreferredCodec: rproto.CompressionCodec_ZSTD, ListenerAddress: f.addr})
	if err != nil {
		return "err stream " + errTok(err)
	}
	md, err := stream.Header()
	if err != nil {
		return "err header " + errTok(err)
	}
	sid := ""
	if v := md.Get("session-id"); len(v) > 0 {
		sid = v[0]
	}
	_ = sid
	n, _ := strconv.Atoi(arg)
	switch kind {
	case "stall":
		// never calls Recv: the application stopped reading; the transport keeps answering pings
	case "noack", "slow", "abrupt":
		go func() {
			for {
				resp, err := stream.Recv()
				if err != nil {
					f.ended.Store(err.Error())
					return
				}
				c := atomic.AddInt64(&f.recvd, 1)
				for _, e := range resp.Entries {
					atomic.AddInt64(&f.bytes, int64(len(e.Payload)))
				}
				if kind == "slow" {
					time.Sleep(time.Duration(n) * time.Millisecond)
				}
				if kind == "abrupt" && int(c) >= n {
					// cut the socket without any gRPC / HTTP2 goodbye
					if rc, ok := f.raw.Load().(net.Conn); ok {
						if tc, ok := rc.(*net.TCPConn); ok {
							tc.SetLinger(0)
						}
						rc.Close()
					}
					f.ended.Store("cut")
					return
				}
			}
		}()
	case "ack": // a well-behaved raw client: acknowledges everything it receives (control for the fault classes)
		go func() {
			var top uint64
			for {
				resp, err := stream.Recv()
				if err != nil {
					f.ended.Store(err.Error())
					return
				}
				atomic.AddInt64(&f.recvd, 1)
				for _, e := range resp.Entries {
					if e.SequenceNumber > top {
						top = e.SequenceNumber
					}
				}
				if top > 0 {
					actx := metadata.NewOutgoingContext(ctx, metadata.Pairs("session-id", sid))
					cl.Acknowledge(actx, &rproto.Ack{AcknowledgedUpTo: top})
				}
			}
		}()
	default:
		return "err bad-fault"
	}
	w.faults[id] = f
	// the session must be visible before the workload starts
	deadline := time.Now().Add(patience(3 * time.Second))
	for time.Now().Before(deadline) {
		if w.inTopology(f.addr) == 1 {
			return "ok"
		}
		time.Sleep(10 * time.Millisecond)
	}
	return "err not-registered"
}

func replGuarded(d time.Duration, f func() error) (err error, blocked bool, lat time.Duration) {
	done := make(chan error, 1)
	t0 := time.Now()
	go func() {
		defer func() {
			if p := recover(); p != nil {
				done <- fmt.Errorf("panic %v", p)
			}
		}()
		done <- f()
	}()
	select {
	case err = <-done:
		return err, false, time.Since(t0)
	case <-time.After(d):
		return nil, true, time.Since(t0)
	}
}

// replDiagnoseBlock classifies a blocked client operation from the goroutine dump:
//
//	lockorder-session  a writer holds wal.mu (inside the observer call) and waits for session.mu in sendToReplica, while the
//	                   poll goroutine of that session holds session.mu (sendUpdatedEntries) and waits for wal.mu
//	lockorder-pmu      a writer holds wal.mu and waits for Primary.mu.RLock in broadcastToReplicas behind a pending
//	                   Primary.mu.Lock (register/unregister/ack), which waits for a reader (getWALEntriesFromSequence) that
//	                   itself waits for wal.mu
//	send               the writer is inside Stream.Send (flow control: the replica does not read)
func replDiagnoseBlock() string {
	buf := make([]byte, 16<<20)
	n := runtime.Stack(buf, true)
	var writerOnSession, pollOnWal, writerOnPmu, fetchOnWal, pmuWriter, writerInSend bool
	for _, g := range strings.Split(string(buf[:n]), "\n\n") {
		lines := strings.Split(g, "\n")
		state := ""
		if i := strings.Index(lines[0], "["); i >= 0 {
			state = strings.TrimRight(lines[0][i+1:], "]:")
		}
		app := "" // first frame that is not the sync / runtime machinery
		for i, l := range lines {
			if i == 0 || strings.HasPrefix(l, "\t") {
				continue
			}
			if app == "" && !strings.HasPrefix(l, "sync.") && !strings.HasPrefix(l, "internal/sync.") && !strings.HasPrefix(l, "runtime.") {
				app = l
			}
		}
		has := func(sub string) bool { return strings.Contains(g, sub) }
		onWal := strings.Contains(app, "wal.(*WAL).GetNextSequence") || strings.Contains(app, "wal.(*WAL).GetEntriesFrom")
		mutexWait := strings.HasPrefix(state, "sync.Mutex.Lock")
		switch {
		case mutexWait && strings.Contains(app, "(*Primary).sendToReplica"):
			writerOnSession = true
		case mutexWait && onWal && has("(*Primary).sendUpdatedEntries"):
			pollOnWal = true
		case mutexWait && onWal && has("(*Primary).getWALEntriesFromSequence"):
			fetchOnWal = true
		case strings.HasPrefix(state, "sync.RWMutex.RLock") && strings.Contains(app, "(*Primary).broadcastToReplicas"):
			writerOnPmu = true
		case (mutexWait || strings.HasPrefix(state, "sync.RWMutex.Lock")) &&
			(strings.Contains(app, "(*Primary).registerReplicaSession") || strings.Contains(app, "(*Primary).unregisterReplicaSession") || strings.Contains(app, "(*Primary).updateSessionAck")):
			pmuWriter = true
		}
		if has("(*Primary).sendToReplica") && has(".SendMsg") && strings.Index(g, ".SendMsg") < strings.Index(g, "(*Primary).sendToReplica") {
			writerInSend = true
		}
	}
	if os.Getenv("VERIF_KEEP_STDERR") != "" {
		os.Stderr.Write(buf[:n])
	}
	switch {
	case writerOnSession && pollOnWal:
		return "lockorder-session"
	case writerOnPmu && fetchOnWal && pmuWriter:
		return "lockorder-pmu"
	case writerInSend:
		return "send"
	}
	return fmt.Sprintf("unknown(ws=%v,pw=%v,wp=%v,fw=%v,pl=%v)", writerOnSession, pollOnWal, writerOnPmu, fetchOnWal, pmuWriter)
}

func (w *replWorld) note(lat time.Duration) {
	if ms := lat.Milliseconds(); ms > w.maxLatMs {
		w.maxLatMs = ms
	}
}

func (w *replWorld) load(n, vlen int) string {
	var bytesDone int
	for i := 0; i < n; i++ {
		k := w.loadKeys
		err, blocked, lat := replGuarded(replWatchdog, func() error { return w.prim.eng.Put(replBurstKey(k), replBurstVal(k, vlen)) })
		if blocked {
			w.blocked = append(w.blocked, "put")
			if w.cause == "" {
				w.cause = replDiagnoseBlock()
			}
			return fmt.Sprintf("blocked op=put after=%d bytes=%d cause=%s", i, bytesDone, w.cause)
		}
		w.note(lat)
		if err != nil {
			w.failed = append(w.failed, "put")
			return fmt.Sprintf("failed op=put after=%d err=%s", i, errTok(err))
		}
		w.loadKeys++
		bytesDone += vlen
	}
	return fmt.Sprintf("ok n=%d", n)
}

func (w *replWorld) guardedGet(k string) string {
	var val []byte
	err, blocked, lat := replGuarded(replWatchdog, func() error {
		v, err := w.prim.eng.Get(unhx(k))
		val = v
		return err
	})
	if blocked {
		w.blocked = append(w.blocked, "get")
		if w.cause == "" {
			w.cause = replDiagnoseBlock()
		}
		return "blocked op=get"
	}
	w.note(lat)
	if err != nil {
		if errors.Is(err, engine.ErrKeyNotFound) || errors.Is(err, storage.ErrKeyNotFound) {
			return "nf"
		}
		w.failed = append(w.failed, "get")
		return "failed op=get err=" + errTok(err)
	}
	return fmt.Sprintf("found len=%d", len(val))
}

func (w *replWorld) guardedCommit(n int) string {
	err, blocked, lat := replGuarded(replWatchdog, func() error {
		tx, err := w.prim.eng.BeginTransaction(false)
		if err != nil {
			return err
		}
		for i := 0; i < n; i++ {
			if err := tx.Put([]byte(fmt.Sprintf("t%06d", w.loadKeys+i)), []byte("txv")); err != nil {
				tx.Rollback()
				return err
			}
		}
		return tx.Commit()
	})
	if blocked {
		w.blocked = append(w.blocked, "commit")
		if w.cause == "" {
			w.cause = replDiagnoseBlock()
		}
		return "blocked op=commit cause=" + w.cause
	}
	w.note(lat)
	if err != nil {
		w.failed = append(w.failed, "commit")
		return "failed op=commit err=" + errTok(err)
	}
	return "ok"
}

// inTopology: 1 listed by the primary's node info, 0 absent, -1 the query itself did not return within 2 s
func (w *replWorld) inTopology(addr string) int {
	res := 0
	_, blocked, _ := replGuarded(2*time.Second, func() error {
		_, _, reps, _, _ := w.prim.mgr.GetNodeInfo()
		for _, r := range reps {
			if r.Address == addr {
				res = 1
			}
		}
		return nil
	})
	if blocked {
		return -1
	}
	return res
}

func (w *replWorld) addrOf(id string) string {
	if f := w.faults[id]; f != nil {
		return f.addr
	}
	if n := w.reps[id]; n != nil {
		return n.addr
	}
	return id
}

func (w *replWorld) watchDrop(id string, ms int) string {
	addr := w.addrOf(id)
	start := time.Now()
	var before int64
	if f := w.faults[id]; f != nil {
		before = atomic.LoadInt64(&f.recvd)
	}
	deadline := start.Add(time.Duration(ms) * time.Millisecond)
	for time.Now().Before(deadline) {
		switch w.inTopology(addr) {
		case 0:
			return fmt.Sprintf("dropped %d", time.Since(start).Milliseconds())
		case -1:
			w.blocked = append(w.blocked, "nodeinfo")
			return "blocked op=nodeinfo"
		}
		time.Sleep(25 * time.Millisecond)
	}
	w.notDrop = append(w.notDrop, id)
	during := int64(-1) // messages the primary sent to this client inside the observation window
	if f := w.faults[id]; f != nil {
		during = atomic.LoadInt64(&f.recvd) - before
	}
	return fmt.Sprintf("notdropped %s during=%d", id, during)
}

func (w *replWorld) topo() string {
	var parts []string
	var ids []string
	for id := range w.faults {
		ids = append(ids, id)
	}
	for id := range w.reps {
		ids = append(ids, id)
	}
	sort.Strings(ids)
	for _, id := range ids {
		parts = append(parts, fmt.Sprintf("%s=%d", id, w.inTopology(w.addrOf(id))))
	}
	return strings.TrimSpace("topo " + strings.Join(parts, " "))
}

func (w *replWorld) verdict() string {
	extra := fmt.Sprintf("maxlat_ms=%d", w.maxLatMs)
	var ids []string
	for id := range w.faults {
		ids = append(ids, id)
	}
	sort.Strings(ids)
	for _, id := range ids {
		f := w.faults[id]
		extra += fmt.Sprintf(" %s:%s:recvd=%d", id, f.kind, atomic.LoadInt64(&f.recvd))
	}
	switch {
	case len(w.blocked) > 0:
		return fmt.Sprintf("blocked op=%s cause=%s %s", strings.Join(w.blocked, ","), w.cause, extra)
	case len(w.failed) > 0:
		return fmt.Sprintf("failed op=%s %s", strings.Join(w.failed, ","), extra)
	case len(w.notDrop) > 0:
		return fmt.Sprintf("notdropped %s %s", strings.Join(w.notDrop, ","), extra)
	}
	return "ok " + extra
}

// ------------------------------------------------------------------------------------------------------------
// generators
// ------------------------------------------------------------------------------------------------------------

func (g *gen) replSmallKV() (string, string) {
	return hx([]byte(fmt.Sprintf("s%03d", g.intn(40)))), hx(g.bytesN(1 + g.intn(24)))
}

// mixedOps: n single writes (puts, overwrites, deletes) on a small key space
func replGenMixedOps(g *gen, w *bufio.Writer, n int, withDeletes bool) {
	for i := 0; i < n; i++ {
		k, v := g.replSmallKV()
		if g.chance(1, 25) {
			k = "=" // the empty key is a key like any other (its delete is the shortest entry there is)
		}
		if withDeletes && g.chance(1, 4) {
			fmt.Fprintln(w, join("del", k))
		} else {
			fmt.Fprintln(w, join("put", k, v))
		}
	}
}

func replGenTx(g *gen, w *bufio.Writer, m int) {
	parts := []string{"tx", strconv.Itoa(m)}
	used := map[string]bool{}
	for len(used) < m {
		k, v := g.replSmallKV()
		if used[k] {
			continue
		}
		used[k] = true
		if g.chance(1, 5) {
			parts = append(parts, "d", k, "=")
		} else {
			parts = append(parts, "p", k, v)
		}
	}
	fmt.Fprintln(w, strings.Join(parts, " "))
}

var replClassesQuick = []string{"after", "before", "during", "restart", "outage", "refusedtx", "flaps", "stopwrite", "stopstorm", "stopapply", "preflush", "two", "tx1", "prod", "txmulti", "rotate", "onelate", "cleancatchup", "cleanpush", "sustained", "txcut", "bigvalues", "applyfail", "maxvalue", "bigvalues"}
var replClassesThorough = append(append([]string{}, replClassesQuick...), "after", "before", "during", "restart", "txmulti", "rotatemem", "txsplit", "mixed")

func genRepl(g *gen, n int, tier string, w *bufio.Writer) {
	classes := replClassesQuick
	if tier == "thorough" {
		classes = replClassesThorough
	}
	for c := 0; c < n; c++ {
		class := classes[c%len(classes)]
		fmt.Fprintf(w, "# case %d %s\n", c, class)
		genReplCase(g, w, class, tier == "thorough")
	}
}

func genReplCase(g *gen, w *bufio.Writer, class string, big bool) {
	retry := g.pick(100, 200, 300)
	bound := 20000
	scale := 1
	if big {
		scale = 2
		bound = 30000
	}
	hdr := func(expect string, extra string) {
		fmt.Fprintf(w, "cfg class=%s expect=%s retry=%d bound=%d hard=150 %s\n", class, expect, retry, bound, extra)
		fmt.Fprintln(w, "primary")
	}
	switch class {
	case "after": // the replica joins after the primary went quiet: backlog of several poll rounds
		hdr("converge", "")
		fmt.Fprintf(w, "burst %d 0 %d\n", scale*(150+g.intn(200)), 8+g.intn(40))
		replGenMixedOps(g, w, 20+g.intn(40), true)
		fmt.Fprintf(w, "burstdel %d %d\n", 10+g.intn(30), g.intn(100))
		fmt.Fprintln(w, "join a")
		fmt.Fprintln(w, "await a")
	case "bigvalues": // values at the log's fragment boundaries, many medium values, one value above 1 MB; the replica joins late or early
		hdr("converge", "")
		late := g.chance(1, 2)
		if !late {
			fmt.Fprintln(w, "join a")
			fmt.Fprintln(w, "idle a 5000")
		}
		replGenMixedOps(g, w, 5+g.intn(10), false)
		for i, n := 0, 4+g.intn(5); i < n; i++ {
			k := []byte(fmt.Sprintf("big%02d", i))
			size := 0
			kind := g.intn(5)
			if i == 0 && g.chance(1, 2) {
				kind = 3
			}
			switch kind {
			case 0: // the whole record is a multiple of the physical record size
				size = g.pick(1, 2, 3)*32768 - 17 - len(k) + g.pick(-1, 0, 1)
			case 1: // what follows the first fragment is a multiple of it
				size = g.pick(1, 2, 3)*32768 - 4 + g.pick(-1, 0, 0, 1)
			case 2:
				size = g.pick(32768, 65536, 100000) + g.pick(-1, 0, 1, 4)
			case 3:
				size = 1100000 + g.intn(300000)
			default:
				size = 20000 + g.intn(20000)
			}
			fmt.Fprintf(w, "putbig %s %d\n", hx(k), size)
			if g.chance(1, 2) {
				replGenMixedOps(g, w, 1+g.intn(5), true)
			}
		}
		if g.chance(1, 2) {
			for i := 0; i < 40; i++ { // many medium values: several poll rounds by volume
				fmt.Fprintf(w, "putbig %s %d\n", hx([]byte(fmt.Sprintf("med%02d", i))), 30000)
			}
		}
		replGenMixedOps(g, w, 5+g.intn(10), true)
		if late {
			fmt.Fprintln(w, "join a")
		}
		fmt.Fprintln(w, "await a")
	case "applyfail": // one replicated entry fails to apply once on the replica (transient): it must be applied later, nothing skipped
		hdr("converge", "")
		late := g.chance(1, 2)
		n := 20 + g.intn(60)
		victim := g.intn(n)
		fmt.Fprintf(w, "failapply a %s\n", hx(replBurstKey(victim)))
		if victim >= 1 { // the entries in front of the failed one are applied again by the retransmission: make that visible for a while
			fmt.Fprintf(w, "reslow a %s %d\n", hx(replBurstKey(g.intn(victim))), g.pick(120, 250))
		}
		if !late {
			fmt.Fprintln(w, "join a")
			fmt.Fprintln(w, "idle a 5000")
		}
		fmt.Fprintf(w, "burst %d 0 %d\n", n, 8+g.intn(40))
		replGenMixedOps(g, w, 5+g.intn(20), false)
		if late {
			fmt.Fprintln(w, "join a")
		}
		fmt.Fprintln(w, "await a")
	case "before": // the replica is connected and idle, then the primary writes
		hdr("converge", "")
		fmt.Fprintln(w, "join a")
		fmt.Fprintln(w, "idle a 5000")
		replGenMixedOps(g, w, 30+g.intn(60), true)
		fmt.Fprintf(w, "burst %d 0 %d\n", scale*(50+g.intn(150)), 8+g.intn(40))
		fmt.Fprintf(w, "burstdel %d %d\n", 5+g.intn(20), g.intn(40))
		fmt.Fprintln(w, "await a")
	case "during": // the replica joins while a writer is running
		hdr("converge", "")
		fmt.Fprintf(w, "bgburst %d 0 %d %d\n", scale*(200+g.intn(200)), 8+g.intn(40), 1000+g.intn(4000))
		fmt.Fprintf(w, "sleep %d\n", 50+g.intn(400))
		fmt.Fprintln(w, "join a")
		fmt.Fprintln(w, "bgwait")
		fmt.Fprintln(w, "await a")
	case "restart": // converge, stop the replica, more writes (overwrites and deletes of replicated keys), start it again on its directory
		hdr("converge", "")
		fmt.Fprintln(w, "join a")
		replGenMixedOps(g, w, 40+g.intn(40), true)
		fmt.Fprintln(w, "await a")
		fmt.Fprintln(w, "stop a")
		replGenMixedOps(g, w, 40+g.intn(40), true)
		fmt.Fprintf(w, "burst %d 0 %d\n", 20+g.intn(100), 8+g.intn(40))
		fmt.Fprintln(w, "join a")
		fmt.Fprintln(w, "await a")
	case "preflush": // the primary's history spans several log files BEFORE replication starts (written, flushed and closed by an
		// earlier run of the engine): a replica catching up in messages of 100 entries crosses the file boundaries, and its
		// cursor lands on, right before and right behind the last number of a closed file
		fmt.Fprintf(w, "cfg class=%s expect=converge retry=%d bound=%d hard=150 \n", class, retry, bound)
		first := g.pick(101, 101, 201) // the first closed file ends exactly one entry behind a 100-entry message: the cursor lands on its last number
		fmt.Fprintf(w, "preload %d %d 1\n", first, 4+g.intn(12))
		if g.chance(1, 2) {
			fmt.Fprintf(w, "preload %d %d %d\n", g.pick(99, 100, 101, 102, 10+g.intn(150)), 4+g.intn(12), g.intn(2))
		}
		fmt.Fprintln(w, "primary")
		replGenMixedOps(g, w, 5+g.intn(20), true)
		fmt.Fprintln(w, "join a")
		fmt.Fprintln(w, "await a")
		replGenMixedOps(g, w, 5+g.intn(20), true)
		fmt.Fprintln(w, "await a")
	case "outage": // the network between replica and primary drops while the replica holds applied entries (a relay in front of the
		// primary closes every connection and refuses new ones for a while); more writes during and after; every operation is
		// applied once, in order, and the replica converges
		hdr("any", "proxy=1")
		fmt.Fprintln(w, "join a")
		replGenMixedOps(g, w, 20+g.intn(40), true)
		fmt.Fprintln(w, "await a")
		fmt.Fprintf(w, "outage %d\n", g.pick(50, 300, 1200))
		replGenMixedOps(g, w, 10+g.intn(30), true)
		fmt.Fprintln(w, "await a")
		fmt.Fprintf(w, "outage %d\n", g.pick(50, 300))
		fmt.Fprintln(w, "await a")
	case "stopwrite": // a replica refuses client writes while it replicates, and still after its replication was stopped (it remains a
		// replica: what was replicated to it must not diverge through a client)
		hdr("any", "")
		fmt.Fprintln(w, "join a")
		replGenMixedOps(g, w, 8+g.intn(20), true)
		fmt.Fprintln(w, "await a")
		k, v := g.replSmallKV()
		fmt.Fprintln(w, join("clientput", "a", k, v))
		fmt.Fprintln(w, "stopmgr a")
		k, v = g.replSmallKV()
		fmt.Fprintln(w, join("clientput", "a", k, v))
		fmt.Fprintln(w, join("clientput", "a", hx([]byte("client-key")), hx([]byte("c"))))
	case "maxvalue": // the largest value the API accepts (10 MiB) replicates like any other (alone in its case: the primary's memtable
		// must not fill up - a background flush replaces the log object: D30)
		hdr("converge", "")
		if g.chance(1, 2) {
			fmt.Fprintln(w, "join a")
			fmt.Fprintln(w, "idle a 5000")
		}
		replGenMixedOps(g, w, 3+g.intn(6), false)
		fmt.Fprintf(w, "putbig %s %d\n", hx([]byte("maxvalue")), 10*1024*1024)
		replGenMixedOps(g, w, 2+g.intn(4), false)
		fmt.Fprintln(w, "join b")
		fmt.Fprintln(w, "await b")
	case "refusedtx": // the primary refuses a commit (a value beyond one log record) in the middle of the history: later writes replicate
		hdr("any", "")
		if g.chance(1, 2) {
			fmt.Fprintln(w, "join a")
		}
		replGenMixedOps(g, w, 5+g.intn(20), true)
		fmt.Fprintf(w, "txrefused %s %d\n", hx([]byte("refused-big")), g.pick(32768, 40000, 70000))
		replGenMixedOps(g, w, 5+g.intn(20), true)
		fmt.Fprintln(w, "join b")
		fmt.Fprintln(w, "await b")
		replGenMixedOps(g, w, 3+g.intn(5), false)
		fmt.Fprintln(w, "await b")
	case "flaps": // the link drops several times, each time long enough for a few failed dials; the replica reconnects every time
		// (the replica's back-off grows with the time it has spent in its error state: after three outages a reconnect can take
		// more than ten seconds - slow, not stuck: the bound of this class is a minute)
		bound = 60000
		hdr("any", "proxy=1")
		fmt.Fprintln(w, "join a")
		replGenMixedOps(g, w, 10+g.intn(20), true)
		fmt.Fprintln(w, "await a")
		for k := 0; k < 3; k++ {
			fmt.Fprintf(w, "outage %d\n", g.pick(1500, 2200))
			replGenMixedOps(g, w, 3+g.intn(8), true)
			fmt.Fprintln(w, "await a")
		}
	case "stopapply": // the replica is stopped exactly while its loop is inside the apply handler (a slow apply), then started again
		hdr("converge", "")
		fmt.Fprintln(w, "join a")
		replGenMixedOps(g, w, 10+g.intn(20), false)
		fmt.Fprintln(w, "await a")
		for i, m := 0, 1+g.intn(2); i < m; i++ {
			k := hx([]byte(fmt.Sprintf("slowkey-%d", i)))
			fmt.Fprintf(w, "slowapply a %s %d\n", k, 600+g.intn(600))
			fmt.Fprintf(w, "put %s %s\n", k, hx(g.bytesN(5)))
			fmt.Fprintf(w, "stopduring a %s\n", k)
			replGenMixedOps(g, w, 5+g.intn(10), false)
		}
		fmt.Fprintln(w, "await a")
	case "stopstorm": // the replica is stopped and started again and again WHILE entries keep arriving (its loop is inside a handler)
		hdr("converge", "")
		fmt.Fprintln(w, "join a")
		fmt.Fprintf(w, "bgburst %d 0 %d %d\n", 500+g.intn(400), 8+g.intn(24), 1500+g.intn(1500))
		for i, m := 0, 6+g.intn(5); i < m; i++ {
			fmt.Fprintf(w, "sleep %d\n", 30+g.intn(250))
			fmt.Fprintln(w, "restart a")
		}
		fmt.Fprintln(w, "bgwait")
		fmt.Fprintln(w, "await a")
	case "two": // two replicas, one before and one after the writes
		hdr("converge", "")
		fmt.Fprintln(w, "join a")
		replGenMixedOps(g, w, 40+g.intn(60), true)
		fmt.Fprintf(w, "burst %d 0 %d\n", 80+g.intn(100), 8+g.intn(40))
		fmt.Fprintln(w, "join b")
		fmt.Fprintln(w, "await a")
		fmt.Fprintln(w, "await b")
	case "tx1": // transactions with a single operation have a sequence number of their own
		hdr("converge", "")
		for i := 0; i < 20+g.intn(20); i++ {
			if g.chance(1, 2) {
				replGenTx(g, w, 1)
			} else {
				replGenMixedOps(g, w, 1, true)
			}
		}
		fmt.Fprintln(w, "join a")
		fmt.Fprintln(w, "await a")
	case "prod": // exactly the configuration of cmd/kevo/server.go: nil PrimaryConfig / ReplicaConfig (1 s back-off, fsync per write)
		fmt.Fprintf(w, "cfg class=%s expect=converge prod=1 bound=%d hard=150\n", class, bound+5000)
		fmt.Fprintln(w, "primary")
		fmt.Fprintf(w, "burst %d 0 16\n", 110+g.intn(60))
		replGenMixedOps(g, w, 10+g.intn(20), true)
		fmt.Fprintln(w, "join a")
		fmt.Fprintln(w, "await a")
	case "txmulti": // D29: one multi-key transaction in the history
		hdr("converge", "")
		replGenMixedOps(g, w, 5+g.intn(20), true)
		replGenTx(g, w, 2+g.intn(4))
		replGenMixedOps(g, w, 5+g.intn(20), true)
		if g.chance(1, 2) {
			fmt.Fprintln(w, "join a")
		} else {
			// joined first: same end state
			fmt.Fprintln(w, "join a")
			replGenMixedOps(g, w, 3, false)
		}
		fmt.Fprintln(w, "await a")
	case "txsplit": // D29 second clause: a transaction that straddles the 100-entry poll limit
		hdr("converge", "")
		fmt.Fprintf(w, "burst %d 0 8\n", 96+g.intn(3)) // the cut falls inside the transaction: rejected as a gap (first clause)
		replGenTx(g, w, 4+g.intn(4))
		replGenMixedOps(g, w, 10, false)
		fmt.Fprintln(w, "join a")
		fmt.Fprintln(w, "await a")
	case "txcut": // D29 second clause: the 100-entry cut falls right after the FIRST entry of a transaction: the rest is skipped silently
		hdr("converge", "")
		fmt.Fprintf(w, "burst %d 0 8\n", 99+100*g.intn(2))
		replGenTx(g, w, 2+g.intn(4))
		replGenMixedOps(g, w, 3+g.intn(10), false)
		fmt.Fprintln(w, "join a")
		fmt.Fprintln(w, "await a")
	case "rotate": // D30: an explicit flush on the primary replaces the log object
		hdr("converge", "")
		fmt.Fprintln(w, "join a")
		replGenMixedOps(g, w, 10+g.intn(30), true)
		fmt.Fprintln(w, "await a")
		fmt.Fprintln(w, "flush")
		replGenMixedOps(g, w, 10+g.intn(30), false)
		fmt.Fprintln(w, "await a")
	case "rotatemem": // D30: enough data to fill a small memtable: the background flush rotates the log
		fmt.Fprintf(w, "cfg class=%s expect=converge retry=%d bound=%d hard=150 mem=%d\n", class, retry, bound, 16384)
		fmt.Fprintln(w, "primary")
		fmt.Fprintln(w, "join a")
		fmt.Fprintf(w, "burst %d 0 %d\n", 300+g.intn(200), 100+g.intn(100))
		fmt.Fprintln(w, "sleep 500")
		replGenMixedOps(g, w, 10, false)
		fmt.Fprintln(w, "await a")
	case "onelate": // the only write after the replica caught up (D35b before its repair): must converge
		hdr("converge", "")
		replGenMixedOps(g, w, g.intn(30), true)
		fmt.Fprintln(w, "join a")
		fmt.Fprintln(w, "await a")
		fmt.Fprintln(w, "idle a 8000")
		k := hx([]byte(fmt.Sprintf("late%03d", g.intn(1000))))
		fmt.Fprintln(w, join("put", k, hx(g.bytesN(1+g.intn(16)))))
		fmt.Fprintln(w, "await a")
	case "cleancatchup": // D35: no push at all (the primary is quiet before the replica joins): catching up must not error
		hdr("clean", "")
		fmt.Fprintf(w, "burst %d 0 %d\n", 120+g.intn(100), 8+g.intn(24))
		fmt.Fprintln(w, "join a")
		fmt.Fprintln(w, "await a")
	case "cleanpush": // D31: the replica is connected and idle; the next writes are pushed
		hdr("clean", "")
		fmt.Fprintln(w, "join a")
		fmt.Fprintln(w, "idle a 8000")
		replGenMixedOps(g, w, 4+g.intn(8), false)
		fmt.Fprintln(w, "await a")
	case "sustained": // a writer that keeps going next to a connected replica (every poll tick meets a put: D38 before its repair); must converge
		fmt.Fprintf(w, "cfg class=%s expect=converge retry=100 bound=%d hard=200\n", class, bound+15000)
		fmt.Fprintln(w, "primary")
		fmt.Fprintln(w, "join a")
		fmt.Fprintln(w, "idle a 8000")
		fmt.Fprintf(w, "bgburst %d 0 16 %d\n", 2500+g.intn(1000), 150+g.intn(150))
		fmt.Fprintln(w, "bgwait")
		fmt.Fprintln(w, "await a")
	case "mixed": // thorough: random combination; classification by replSymptoms
		hdr("converge", "")
		joined := false
		for i := 0; i < 6+g.intn(6); i++ {
			switch x := g.intn(10); {
			case x < 5:
				replGenMixedOps(g, w, 5+g.intn(40), true)
			case x < 6:
				replGenTx(g, w, 1+g.intn(4))
			case x < 7:
				fmt.Fprintln(w, "flush")
			case x < 8 && !joined:
				fmt.Fprintln(w, "join a")
				joined = true
			default:
				fmt.Fprintf(w, "burst %d %d %d\n", 20+g.intn(150), g.intn(100), 8+g.intn(40))
			}
		}
		if !joined {
			fmt.Fprintln(w, "join a")
		}
		fmt.Fprintln(w, "await a")
	}
}

var replFaultClassesQuick = []string{"healthy", "abrupt", "slow", "acking", "idledrop", "stall", "noackbusy", "noackidle", "sustained"}
var replFaultClassesThorough = append(append([]string{}, replFaultClassesQuick...), "stall", "abrupt", "slow", "stalltx", "abruptmany", "sustainedbig")

func genReplFault(g *gen, n int, tier string, w *bufio.Writer) {
	classes := replFaultClassesQuick
	if tier == "thorough" {
		classes = replFaultClassesThorough
	}
	for c := 0; c < n; c++ {
		class := classes[c%len(classes)]
		fmt.Fprintf(w, "# case %d %s\n", c, class)
		genReplFaultCase(g, w, class)
	}
}

func genReplFaultCase(g *gen, w *bufio.Writer, class string) {
	hdr := func(extra string) {
		fmt.Fprintf(w, "cfg class=%s retry=200 hbint=300 hbto=1200 bound=20000 hard=150 %s\n", class, extra)
		fmt.Fprintln(w, "primary")
	}
	key0 := hx(replBurstKey(0))
	switch class {
	case "healthy": // control: only a real replica
		hdr("empty=1")
		fmt.Fprintln(w, "join h")
		fmt.Fprintf(w, "load %d %d\n", 100+g.intn(100), 64+g.intn(200))
		fmt.Fprintln(w, join("get", key0))
		fmt.Fprintf(w, "commit %d\n", 1)
		fmt.Fprintf(w, "load %d 64\n", 3)
		fmt.Fprintln(w, "await h")
		fmt.Fprintln(w, "topo")
		fmt.Fprintln(w, "verdict")
	case "abrupt", "abruptmany": // a client cuts its socket in the middle of the workload
		hdr("empty=1")
		fmt.Fprintln(w, "join h")
		k := 1
		if class == "abruptmany" {
			k = 3
		}
		for i := 0; i < k; i++ {
			fmt.Fprintf(w, "fault abrupt f%d %d\n", i, 1+g.intn(10))
		}
		fmt.Fprintf(w, "load %d %d\n", 150+g.intn(100), 64+g.intn(2000))
		fmt.Fprintln(w, join("get", key0))
		fmt.Fprintf(w, "commit %d\n", 1)
		for i := 0; i < k; i++ {
			fmt.Fprintf(w, "watchdrop f%d 6000\n", i)
		}
		fmt.Fprintf(w, "load %d 64\n", 20)
		fmt.Fprintln(w, "await h")
		fmt.Fprintln(w, "topo")
		fmt.Fprintln(w, "verdict")
	case "slow": // a slow consumer (slow apply): a modest amount of data
		hdr("empty=1")
		fmt.Fprintln(w, "join h")
		fmt.Fprintf(w, "fault slow f1 %d\n", 5+g.intn(30))
		fmt.Fprintf(w, "load %d %d\n", 100+g.intn(100), 64+g.intn(200))
		fmt.Fprintln(w, join("get", key0))
		fmt.Fprintf(w, "commit %d\n", 1)
		fmt.Fprintf(w, "load %d 64\n", 3)
		fmt.Fprintln(w, "await h")
		fmt.Fprintln(w, "topo")
		fmt.Fprintln(w, "verdict")
	case "acking": // control for the drop rule: a client that acknowledges stays in the topology
		hdr("empty=0")
		fmt.Fprintln(w, "fault ack f1")
		fmt.Fprintf(w, "load %d 64\n", 20+g.intn(20))
		fmt.Fprintln(w, "sleep 600")
		fmt.Fprintf(w, "load %d 64\n", 20+g.intn(20))
		fmt.Fprintln(w, "topo")
		fmt.Fprintln(w, "verdict")
	case "idledrop": // heartbeat without keep-alive responses: a silent session is dropped after the timeout
		hdr("empty=0")
		fmt.Fprintln(w, "fault noack f1")
		fmt.Fprintln(w, "watchdrop f1 6000")
		fmt.Fprintf(w, "load %d 64\n", 5+g.intn(10))
		fmt.Fprintln(w, join("get", key0))
		fmt.Fprintln(w, "topo")
		fmt.Fprintln(w, "verdict")
	case "stall", "stalltx": // D32: the application stops reading its stream
		hdr("empty=1")
		fmt.Fprintln(w, "join h")
		fmt.Fprintln(w, "fault stall f1")
		if class == "stalltx" {
			fmt.Fprintf(w, "commit %d\n", 2)
		}
		fmt.Fprintf(w, "load %d %d\n", 900, 16384)
		fmt.Fprintln(w, join("get", key0))
		fmt.Fprintln(w, "commit 2")
		fmt.Fprintln(w, "watchdrop f1 4000")
		fmt.Fprintln(w, "verdict")
	case "noackbusy": // D32 second clause: reads, never acknowledges, the primary keeps writing
		hdr("empty=0")
		fmt.Fprintln(w, "fault noack f1")
		for i := 0; i < 8; i++ {
			fmt.Fprintf(w, "load %d 64\n", 5)
			fmt.Fprintf(w, "sleep %d\n", 430+g.intn(40))
		}
		fmt.Fprintln(w, "watchdrop f1 1500")
		fmt.Fprintln(w, "verdict")
	case "sustained", "sustainedbig": // >= 50k puts next to a healthy real replica AND a reading, never acknowledging client (D38 before its repair): must complete
		fmt.Fprintf(w, "cfg class=%s retry=200 hbint=300 hbto=1200 bound=20000 hard=400 empty=1\n", class)
		fmt.Fprintln(w, "primary")
		fmt.Fprintln(w, "join h")
		fmt.Fprintln(w, "fault noack f1")
		fmt.Fprintln(w, "idle h 8000")
		n := 50000 + g.intn(10000)
		if class == "sustainedbig" {
			n = 150000
		}
		fmt.Fprintf(w, "load %d 64\n", n)
		fmt.Fprintln(w, join("get", key0))
		fmt.Fprintf(w, "commit %d\n", 2)
		fmt.Fprintln(w, "topo")
		fmt.Fprintln(w, "verdict")
	case "noackidle": // same with the default keep-alive responses on an idle primary
		hdr("empty=1")
		fmt.Fprintln(w, "fault noack f1")
		fmt.Fprintf(w, "load %d 64\n", 5)
		fmt.Fprintln(w, "watchdrop f1 5000")
		fmt.Fprintln(w, "verdict")
	}
}
