package main

// Component `crash` (C02, C03, C10): process death at every instrumentation site of a workload.
//
//	cfg sync=<0|1|2> mem=<n>            configuration of the workload's engine
//	w <engine op…>                      append an operation to the workload (put/del/tx/batch/flush/reopen)
//	plan                                dry run in a child process: the ordered list of sites hit
//	crashall [stride]                   for every k (or every stride-th): run the workload in a child that dies at
//	                                    the k-th site (os.Exit, no defers, buffered data lost), reopen the directory,
//	                                    report the recovered state, then write again, reopen cleanly and report
//
// Site hits inside the skiplist are not counted (their number depends on random node heights).

import (
	"bufio"
	"bytes"
	"fmt"
	"hash/crc32"
	"os"
	"os/exec"
	"path/filepath"
	"sort"
	"strconv"
	"strings"
	"sync"
	"sync/atomic"
	"time"

	"github.com/KevoDB/kevo/pkg/config"
	"github.com/KevoDB/kevo/pkg/engine"
	"github.com/KevoDB/kevo/pkg/verifhook"
	"github.com/KevoDB/kevo/pkg/wal"
)

func init() {
	components["crash"] = &component{gen: genCrash, run: runCrash}
	components["crashchild"] = &component{gen: func(*gen, int, string, *bufio.Writer) {}, run: runCrashChild}
}

// ---------- generator ----------

func genCrash(g *gen, n int, tier string, w *bufio.Writer) {
	c0 := g.intn(1 << 20) // phase of the case kinds: generation is chunked, every chunk must reach every kind
	for c := 0; c < n; c++ {
		sync := g.pick(0, 1, 2, 2, 2)
		mem := g.pick(150, 400, 4096, 1<<20)
		big := (c+c0)%4 == 3 // enough bytes to overflow the 64 KB log buffer
		if (c+c0)%6 == 5 {
			sync, mem = g.pick(0, 1), 1<<20
		}
		fmt.Fprintf(w, "# case %d\n", c)
		fmt.Fprintf(w, "cfg sync=%d mem=%d\n", sync, mem)
		steps := 3 + g.intn(9)
		manyTx := (c+c0)%6 == 3 // a transaction of 150-220 entries totalling > 64 KB (more than the log buffer holds)
		if manyTx {
			fmt.Fprintln(w, join("w", "put", hx(g.engKey()), hx(g.bytesN(20))))
			parts := []string{"w", "tx", "0"}
			m := 150 + g.intn(70)
			for i := 0; i < m; i++ {
				parts = append(parts, "p", hx([]byte(fmt.Sprintf("many%04d", i))), hx(g.bytesN(430+g.intn(80))))
			}
			parts[2] = strconv.Itoa(m)
			fmt.Fprintln(w, strings.Join(parts, " "))
			fmt.Fprintln(w, join("w", "put", hx(g.engKey()), hx(g.bytesN(20))))
			fmt.Fprintln(w, "plan")
			fmt.Fprintln(w, "crashall 5")
			continue
		}
		if (c+c0)%6 == 5 {
			// straddle: unsynced appends sit in the 64 KB log buffer, then a transaction that does not fit the REMAINING space
			// (but would fit an empty buffer) is committed: its records must reach the file together or not at all
			fill := 25000 + g.intn(35000)
			for fill > 0 {
				n := 3000 + g.intn(9000)
				fmt.Fprintln(w, join("w", "put", hx(g.engKey()), hx(g.bytesN(n))))
				fill -= n
			}
			m := 3 + g.intn(6)
			parts := []string{"w", "tx", strconv.Itoa(m)}
			for i := 0; i < m; i++ {
				parts = append(parts, "p", hx([]byte(fmt.Sprintf("st%02d", i))), hx(g.bytesN(3000+g.intn(6000))))
			}
			fmt.Fprintln(w, strings.Join(parts, " "))
			fmt.Fprintln(w, join("w", "put", hx(g.engKey()), hx(g.bytesN(20))))
			if g.chance(1, 2) {
				fmt.Fprintln(w, strings.Join(parts, " "))
			}
			fmt.Fprintln(w, "plan")
			fmt.Fprintln(w, "crashall 1")
			continue
		}
		huge := 0 // one entry larger than the whole 64 KB log buffer: the FIRST record written into a file can be torn
		if big && g.chance(2, 3) {
			huge = 1
		}
		for s := 0; s < steps; s++ {
			inTx := false
			val := func() []byte {
				if big && !inTx && g.chance(1, 6) { // the rest after the first fragment is an exact multiple of the record payload limit
					return g.bytesN(g.pick(1, 2)*32768 - 4 + g.pick(-1, 0, 0, 1))
				}
				if big && g.chance(2, 3) {
					return g.bytesN(9000 + g.intn(14000))
				}
				return g.bytesN(g.pick(0, 1, 5, 30, 120))
			}
			if huge == 1 && (s == 0 || g.chance(1, 3)) {
				huge = 2
				if s > 0 {
					fmt.Fprintln(w, g.pickS("w reopen", "w flush"))
				}
				fmt.Fprintln(w, join("w", "put", hx(g.engKey()), hx(g.bytesN(66000+g.intn(30000)))))
				continue
			}
			switch x := g.intn(100); {
			case x < 45:
				fmt.Fprintln(w, join("w", "put", hx(g.engKey()), hx(val())))
			case x < 57:
				fmt.Fprintln(w, join("w", "del", hx(g.engKey())))
			case x < 82:
				m := 1 + g.intn(4)
				inTx = true // a transaction entry must fit one log record
				parts := []string{"w", "tx", strconv.Itoa(m)}
				for i := 0; i < m; i++ {
					if g.chance(1, 4) {
						parts = append(parts, "d", hx(g.engKey()), "=")
					} else {
						parts = append(parts, "p", hx(g.engKey()), hx(val()))
					}
				}
				fmt.Fprintln(w, strings.Join(parts, " "))
			case x < 90:
				fmt.Fprintln(w, "w flush")
			default:
				fmt.Fprintln(w, "w reopen")
			}
		}
		fmt.Fprintln(w, "plan")
		stride := 1
		if tier == "quick" && big {
			stride = 2
		}
		fmt.Fprintf(w, "crashall %d\n", stride)
	}
}

// ---------- child: runs the workload, dies at the k-th counted site ----------

var crashCounted = []string{"wal.", "mgr.", "flush.", "sst.", "pool.", "tx.", "compact.", "manifest.", "harness."}

func countedSite(site string) bool {
	for _, p := range crashCounted {
		if strings.HasPrefix(site, p) {
			return true
		}
	}
	return false
}

type crashChild struct {
	mu         sync.Mutex
	n          int64
	at         int64
	trace      []string
	opPending  atomic.Bool // the main goroutine is inside an engine call (its ack has not been emitted yet)
	inExplicit atomic.Bool // the main goroutine itself runs FlushMemTables
}

func (c *crashChild) hit(site string) {
	if !countedSite(site) {
		return
	}
	if site == "mgr.flush.start" && !c.inExplicit.Load() {
		// background flush: let the client call that scheduled it return (and be acknowledged) first, so that the
		// global order of site hits is deterministic
		for c.opPending.Load() {
			time.Sleep(50 * time.Microsecond)
		}
	}
	c.mu.Lock()
	c.n++
	if c.at == 0 {
		c.trace = append(c.trace, site)
	}
	if c.at > 0 && c.n == c.at {
		os.Exit(137) // process death: no deferred functions, nothing flushed
	}
	c.mu.Unlock()
}

// runCrashChild: stdin = workload lines (engine ops), env VERIF_CRASH_AT, VERIF_CRASH_DIR, VERIF_CRASH_CFG=sync,mem
func runCrashChild(r *runner) {
	at, _ := strconv.ParseInt(os.Getenv("VERIF_CRASH_AT"), 10, 64)
	dir := os.Getenv("VERIF_CRASH_DIR")
	cfgs := strings.Split(os.Getenv("VERIF_CRASH_CFG"), ",")
	syncMode, _ := strconv.Atoi(cfgs[0])
	mem, _ := strconv.Atoi(cfgs[1])
	x := &engRun{r: r, dir: dir}
	if err := openCrashEngine(x, syncMode, mem, true); err != nil {
		r.emit("openerr " + errTok(err))
		return
	}
	c := &crashChild{at: at}
	var ackFile *os.File // power-loss runs (component power): one marker write(2) per acknowledgement, visible to strace
	if p := os.Getenv("VERIF_ACK_FILE"); p != "" {
		ackFile, _ = os.OpenFile(p, os.O_WRONLY|os.O_CREATE|os.O_APPEND, 0o644)
	}
	verifhook.Set(c.hit)
	for {
		ws, ok := r.next()
		if !ok {
			break
		}
		c.opPending.Store(true)
		if ws[0] == "flush" {
			c.inExplicit.Store(true)
		}
		before := x.immCount()
		var out string
		if ws[0] == "reopen" {
			out = crashReopen(x)
		} else {
			out = x.stepNoQuiesce(ws)
		}
		c.inExplicit.Store(false)
		c.hit("harness.ack")
		if ackFile != nil {
			ackFile.Write([]byte{'A'})
		}
		c.opPending.Store(false)
		if ws[0] != "reopen" && ws[0] != "flush" {
			x.quiesce(before)
		}
		_ = out
	}
	verifhook.Set(nil)
	r.emit("trace " + strconv.Itoa(len(c.trace)) + " " + strings.Join(c.trace, " "))
	if x.e != nil {
		x.e.Close()
	}
}

func crashReopen(x *engRun) string {
	if err := x.e.Close(); err != nil {
		return "err " + errTok(err)
	}
	x.e = nil
	e, err := engine.NewEngineFacade(x.dir)
	if err != nil {
		return "err " + errTok(err)
	}
	x.e = e
	return "ok"
}

func openCrashEngine(x *engRun, syncMode, mem int, fresh bool) error {
	if fresh {
		cfg := config.NewDefaultConfig(x.dir)
		cfg.MemTableSize = int64(mem)
		cfg.MaxMemTables = 4
		cfg.MaxMemTableAge = 0
		cfg.CompactionInterval = 3600
		cfg.WALSyncMode = config.SyncMode(syncMode)
		cfg.WALSyncBytes = 2048
		if err := cfg.SaveManifest(x.dir); err != nil {
			return err
		}
	}
	e, err := engine.NewEngineFacade(x.dir)
	if err != nil {
		return err
	}
	x.e = e
	return nil
}

// stepNoQuiesce: like engRun.step for write ops but without waiting for the background flush
func (x *engRun) stepNoQuiesce(ws []string) string {
	switch ws[0] {
	case "put":
		if err := x.e.Put(unhx(ws[1]), unhx(ws[2])); err != nil {
			return "err " + errTok(err)
		}
	case "del":
		if err := x.e.Delete(unhx(ws[1])); err != nil {
			return "err " + errTok(err)
		}
	case "tx":
		tx, err := x.e.BeginTransaction(false)
		if err != nil {
			return "err " + errTok(err)
		}
		for _, o := range parseEngOps(ws[2:]) {
			if o[0] == "d" {
				err = tx.Delete(unhx(o[1]))
			} else {
				err = tx.Put(unhx(o[1]), unhx(o[2]))
			}
			if err != nil {
				tx.Rollback()
				return "err " + errTok(err)
			}
		}
		if err := tx.Commit(); err != nil {
			return "err " + errTok(err)
		}
	case "flush":
		if err := x.e.FlushImMemTables(); err != nil {
			return "err " + errTok(err)
		}
	default:
		return "bad-op"
	}
	return "ok"
}

// ---------- parent ----------

type crashRun struct {
	r        *runner
	sync     int
	mem      int
	workload []string
	plan     []string
}

func (c *crashRun) runChild(dir string, at int) (string, int) {
	cmd := exec.Command(os.Args[0], "crashchild", "run")
	cmd.Env = append(os.Environ(), fmt.Sprintf("VERIF_CRASH_AT=%d", at), "VERIF_CRASH_DIR="+dir,
		fmt.Sprintf("VERIF_CRASH_CFG=%d,%d", c.sync, c.mem))
	cmd.Stdin = strings.NewReader(strings.Join(c.workload, "\n") + "\n")
	var out bytes.Buffer
	cmd.Stdout = &out
	done := make(chan error, 1)
	if err := cmd.Start(); err != nil {
		return "starterr", -1
	}
	go func() { done <- cmd.Wait() }()
	select {
	case <-done:
	case <-time.After(patience(60 * time.Second)):
		cmd.Process.Kill()
		<-done
		return "timeout", -2
	}
	return out.String(), cmd.ProcessState.ExitCode()
}

// stateDigest: full scan of live keys -> count + crc of the canonical text; plus last sequence
func stateDigest(e *engine.EngineFacade) string {
	it, err := e.GetIterator()
	if err != nil {
		return "scanerr"
	}
	var parts []string
	for it.SeekToFirst(); it.Valid(); it.Next() {
		if it.IsTombstone() {
			continue
		}
		parts = append(parts, hx(it.Key())+":"+hx(it.Value()))
	}
	seq := uint64(0)
	if v, ok := e.GetStats()["storage_last_sequence"].(uint64); ok {
		seq = v
	}
	return fmt.Sprintf("%d/%d/%d", len(parts), crc32.ChecksumIEEE([]byte(strings.Join(parts, ";"))), seq)
}

// recoverAndProbe: reopen after the crash, report the state; then write two marker keys, close cleanly, reopen and
// check that the recovered state plus the markers is what the database holds (writes after a recovery are durable)
func recoverAndProbe(dir string, bigFirst bool) (res string) {
	defer func() {
		if p := recover(); p != nil {
			res = "panic:" + strings.ReplaceAll(fmt.Sprint(p), " ", "_")
		}
	}()
	e, err := engine.NewEngineFacade(dir)
	if err != nil {
		return "openerr:" + errTok(err)
	}
	d1 := stateDigest(e)
	// no log file may have been moved aside
	if m, _ := filepath.Glob(filepath.Join(dir, "wal", "backup_*")); len(m) > 0 {
		d1 += "+backup"
	}
	snap := map[string]string{}
	it, _ := e.GetIterator()
	for it.SeekToFirst(); it.Valid(); it.Next() {
		if !it.IsTombstone() {
			snap[string(it.Key())] = string(it.Value())
		}
	}
	post := "ok"
	// a write may schedule a background flush + log rotation; a following write that meets the rotation can fail with
	// ErrWALRotating (retry budget 30 ms): this sequential probe waits for quiescence between its writes
	imm := func() int {
		n, _ := e.GetStats()["storage_immutable_memtable_count"].(int)
		return n
	}
	// put + wait for a background flush it scheduled (the count rises by one, then drops to zero when the flush is done)
	putQuiet := func(k, v []byte) {
		before := imm()
		if err := e.Put(k, v); err != nil {
			post = "puterr:" + errTok(err)
			return
		}
		if imm() > before {
			deadline := time.Now().Add(patience(30 * time.Second))
			for imm() != 0 && time.Now().Before(deadline) {
				time.Sleep(300 * time.Microsecond)
			}
		}
	}
	// a fragmented entry (> one physical record) written after the recovery must be recoverable too: as the very first
	// write after the recovery (right behind whatever the recovery left at the end of the log) or after small ones
	if bigFirst {
		putQuiet([]byte("\x01post3"), bytes.Repeat([]byte("R"), 40000))
	}
	putQuiet([]byte("\x01post1"), []byte("P1"))
	putQuiet([]byte("\x01post2"), bytes.Repeat([]byte("Q"), 300))
	if !bigFirst {
		putQuiet([]byte("\x01post3"), bytes.Repeat([]byte("R"), 40000))
	}
	snap["\x01post1"] = "P1"
	snap["\x01post2"] = strings.Repeat("Q", 300)
	snap["\x01post3"] = strings.Repeat("R", 40000)
	// what was acknowledged after the recovery is visible at once (not only after the next restart)
	if post == "ok" {
		live := map[string]string{}
		it1, _ := e.GetIterator()
		for it1.SeekToFirst(); it1.Valid(); it1.Next() {
			if !it1.IsTombstone() {
				live[string(it1.Key())] = string(it1.Value())
			}
		}
		for k, v := range snap {
			if live[k] != v {
				post = fmt.Sprintf("invisible(%x)", k)
				break
			}
		}
		if post == "ok" && len(live) != len(snap) {
			post = fmt.Sprintf("livecount(%d!=%d)", len(live), len(snap))
		}
		for _, k := range []string{"\x01post1", "\x01post2", "\x01post3"} {
			if v, err := e.Get([]byte(k)); post == "ok" && (err != nil || string(v) != snap[k]) {
				post = fmt.Sprintf("get-invisible(%x)", k)
			}
		}
	}
	if err := e.Close(); err != nil {
		post = "closeerr"
	}
	e2, err := engine.NewEngineFacade(dir)
	if err != nil {
		return d1 + ":reopenerr"
	}
	got := map[string]string{}
	it2, _ := e2.GetIterator()
	for it2.SeekToFirst(); it2.Valid(); it2.Next() {
		if !it2.IsTombstone() {
			got[string(it2.Key())] = string(it2.Value())
		}
	}
	e2.Close()
	if post == "ok" {
		if len(got) != len(snap) {
			post = fmt.Sprintf("lost(%d!=%d)", len(got), len(snap))
		} else {
			for k, v := range snap {
				if got[k] != v {
					post = "differs"
					break
				}
			}
		}
	}
	return d1 + ":" + post
}

func (c *crashRun) step(ws []string) string {
	switch ws[0] {
	case "cfg":
		c.workload, c.plan = nil, nil
		c.sync, _ = strconv.Atoi(strings.TrimPrefix(ws[1], "sync="))
		c.mem, _ = strconv.Atoi(strings.TrimPrefix(ws[2], "mem="))
		return "ok"
	case "w":
		c.workload = append(c.workload, strings.Join(ws[1:], " "))
		return "ok"
	case "plan":
		dir := c.r.tempDir()
		out, rc := c.runChild(dir, 0)
		os.RemoveAll(dir)
		c.plan = nil
		for _, l := range strings.Split(out, "\n") {
			if strings.HasPrefix(l, "trace ") {
				f := strings.Fields(l)
				c.plan = f[2:]
			}
		}
		if rc != 0 || c.plan == nil {
			return fmt.Sprintf("planerr rc=%d %s", rc, strings.ReplaceAll(strings.TrimSpace(out), "\n", "|"))
		}
		return "plan " + strconv.Itoa(len(c.plan)) + " " + strings.Join(c.plan, " ")
	case "crashall":
		stride := 1
		if len(ws) > 1 {
			stride, _ = strconv.Atoi(ws[1])
		}
		if stride < 1 {
			stride = 1
		}
		type res struct {
			k int
			s string
		}
		var ks []int
		for k := 1; k <= len(c.plan); k += stride {
			ks = append(ks, k)
		}
		results := make([]res, len(ks))
		var wg sync.WaitGroup
		sem := make(chan struct{}, 4)
		for i, k := range ks {
			wg.Add(1)
			sem <- struct{}{}
			go func(i, k int) {
				defer wg.Done()
				defer func() { <-sem }()
				dir, _ := os.MkdirTemp("", "kvcrash-")
				defer os.RemoveAll(dir)
				_, rc := c.runChild(dir, k)
				if rc != 137 {
					results[i] = res{k, fmt.Sprintf("%d:%s:nocrash(rc=%d)", k, c.plan[k-1], rc)}
					return
				}
				acked := 0
				for _, s := range c.plan[:k-1] {
					if s == "harness.ack" {
						acked++
					}
				}
				results[i] = res{k, fmt.Sprintf("%d:%s:%d:%s", k, c.plan[k-1], acked, recoverAndProbe(dir, k%2 == 0 || strings.Contains(c.plan[k-1], "buffered") || strings.Contains(c.plan[k-1], "record")))}
			}(i, k)
		}
		wg.Wait()
		sort.Slice(results, func(i, j int) bool { return results[i].k < results[j].k })
		parts := []string{"crash", strconv.Itoa(len(results))}
		for _, r := range results {
			parts = append(parts, r.s)
		}
		return strings.Join(parts, " ")
	}
	return "bad-op"
}

func runCrash(r *runner) {
	wal.DisableRecoveryLogs = true
	c := &crashRun{r: r}
	for {
		ws, ok := r.next()
		if !ok {
			break
		}
		r.emit(c.step(ws))
	}
}
