package main

// component `lin` (C06): concurrent put/get/delete on a REAL engine with tiny memtables (rotation / flush every few
// writes), perturbed by a seeded yield handler at the verifhook sites; the recorded invocation/response history is
// checked for linearizability against the per-key register specification (own WGL-style checker), and the log
// directory is replayed afterwards: every acknowledged write exactly once, a failed write nowhere.
// Implementation-only component: one scenario per script line, one verdict line per scenario:
//   ok ...            nothing wrong
//   bad <kind> ...    a violation

import (
	"bufio"
	"errors"
	"fmt"
	"math/rand"
	"os"
	"path/filepath"
	"runtime"
	"sort"
	"strconv"
	"strings"
	"sync"
	"sync/atomic"
	"time"

	"github.com/KevoDB/kevo/pkg/config"
	"github.com/KevoDB/kevo/pkg/engine"
	"github.com/KevoDB/kevo/pkg/engine/storage"
	"github.com/KevoDB/kevo/pkg/verifhook"
	"github.com/KevoDB/kevo/pkg/wal"
)

func init() {
	components["lin"] = &component{gen: genLin, run: runLin}
	// the seqrot scenarios alone (C08: sequence numbers under writers racing log rotations)
	components["seqrot"] = &component{gen: func(g *gen, n int, tier string, w *bufio.Writer) {
		for c := 0; c < n; c++ {
			fmt.Fprintf(w, "# case %d\n", c)
			ms := g.pick(400, 800)
			if tier == "thorough" {
				ms = g.pick(1500, 3000)
			}
			fmt.Fprintf(w, "seqrot seed=%d threads=%d ms=%d procs=%d\n", g.intn(1<<30), g.pick(1, 2, 4), ms, g.pick(2, 4, 16))
		}
	}, run: runLin}
}

func genLin(g *gen, n int, tier string, w *bufio.Writer) {
	for c := 0; c < n; c++ {
		fmt.Fprintf(w, "# case %d\n", c)
		if c%6 == 5 {
			fmt.Fprintf(w, "d19 seed=%d\n", g.intn(1<<30))
			continue
		}
		if c%6 == 2 { // writers against back-to-back rotations: sequence numbers must stay unique and increasing (C08)
			ms := g.pick(400, 800)
			if tier == "thorough" {
				ms = g.pick(1500, 3000)
			}
			fmt.Fprintf(w, "seqrot seed=%d threads=%d ms=%d procs=%d\n", g.intn(1<<30), g.pick(1, 2, 4), ms, g.pick(2, 4, 16))
			continue
		}
		threads, ops := g.pick(3, 4, 6, 8), g.pick(60, 100, 150)
		if tier == "thorough" {
			ops = g.pick(150, 300, 500)
		}
		fmt.Fprintf(w, "stress seed=%d threads=%d ops=%d keys=%d mem=%d sync=%s yield=%d compact=%d flush=%d procs=%d\n", g.intn(1<<30), threads, ops,
			g.pick(1, 2, 3, 5), g.pick(200, 400, 900, 2500), []string{"immediate", "none", "immediate"}[g.intn(3)], g.pick(0, 20, 40, 70),
			g.intn(2), g.intn(2), g.pick(1, 2, 4, 16))
	}
}

// ---------- history and checker ----------

type linOp struct {
	kind      byte // 'p' put, 'd' delete, 'g' get
	key       int
	val       string // value written / value read ("" = not found)
	ok        bool   // write acknowledged / read completed without an unexpected error
	errTxt    string
	call, ret int64
	tid       int
}

// checkRegister: is the history of ONE key linearizable w.r.t. a register (put v / delete / get)? Failed writes are
// no-ops. WGL search: repeatedly pick a minimal operation (no other pending-to-linearize operation returned before its
// call) that is consistent with the current value; memoise (set of linearized ops, value).
func checkRegister(ops []*linOp) (bool, string) {
	n := len(ops)
	if n == 0 {
		return true, ""
	}
	sort.Slice(ops, func(i, j int) bool { return ops[i].call < ops[j].call })
	done := make([]bool, n)
	type memoKey struct {
		set string
		val string
	}
	seen := map[memoKey]bool{}
	setKey := func() string {
		b := make([]byte, (n+7)/8)
		for i, d := range done {
			if d {
				b[i/8] |= 1 << (i % 8)
			}
		}
		return string(b)
	}
	var steps int
	var rec func(left int, cur string) bool
	rec = func(left int, cur string) bool {
		if left == 0 {
			return true
		}
		steps++
		k := memoKey{setKey(), cur}
		if seen[k] {
			return false
		}
		seen[k] = true
		// earliest return among the remaining operations bounds the candidates
		minRet := int64(1<<62 - 1)
		for i := 0; i < n; i++ {
			if !done[i] && ops[i].ret < minRet {
				minRet = ops[i].ret
			}
		}
		for i := 0; i < n; i++ {
			if done[i] {
				continue
			}
			if ops[i].call > minRet {
				break // sorted by call: everything further was invoked after some remaining op returned
			}
			o, next, okStep := ops[i], cur, true
			switch {
			case o.kind == 'g':
				okStep = !o.ok || o.val == cur
			case !o.ok: // failed write: no effect
			case o.kind == 'p':
				next = o.val
			default:
				next = ""
			}
			if okStep {
				done[i] = true
				if rec(left-1, next) {
					return true
				}
				done[i] = false
			}
		}
		return false
	}
	if rec(n, "") {
		return true, ""
	}
	var sb strings.Builder
	for i, o := range ops {
		if i >= 60 {
			sb.WriteString("...")
			break
		}
		fmt.Fprintf(&sb, "[t%d %c %s ok=%v %d-%d]", o.tid, o.kind, o.val, o.ok, o.call, o.ret)
	}
	return false, sb.String()
}

// ---------- yield handler ----------

type yielder struct {
	seed     uint64
	percent  uint64
	n        atomic.Uint64
	sites    sync.Map
	rotating atomic.Int64 // rotateWAL calls in flight (between the sites mgr.rotate.setRotating and mgr.rotate.closed)
	quiet    atomic.Bool  // count only, no perturbation
}

func (y *yielder) at(site string) {
	switch site {
	case "mgr.rotate.setRotating":
		y.rotating.Add(1)
	case "mgr.rotate.closed":
		y.rotating.Add(-1)
	}
	if y.quiet.Load() {
		return
	}
	y.sites.Store(site, true)
	c := y.n.Add(1)
	x := (c + y.seed) * 0x9e3779b97f4a7c15
	x ^= x >> 31
	x *= 0xbf58476d1ce4e5b9
	x ^= x >> 29
	if x%100 >= y.percent {
		return
	}
	switch (x >> 8) % 4 {
	case 0:
		time.Sleep(time.Duration((x>>16)%200) * time.Microsecond)
	default:
		runtime.Gosched()
	}
}

func linKey(i int) []byte { return []byte(fmt.Sprintf("key-%02d", i)) }

func parseKV(ws []string) map[string]string {
	m := map[string]string{}
	for _, w := range ws {
		if i := strings.IndexByte(w, '='); i > 0 {
			m[w[:i]] = w[i+1:]
		}
	}
	return m
}

func atoi(s string) int { n, _ := strconv.Atoi(s); return n }

func openLinEngine(dir string, mem int, sync string) (*engine.EngineFacade, error) {
	cfg := config.NewDefaultConfig(dir)
	cfg.MemTableSize = int64(mem)
	cfg.MaxMemTables = 4
	cfg.MaxMemTableAge = 0
	cfg.CompactionInterval = 3600
	cfg.WALSyncMode = config.SyncImmediate
	if sync == "none" {
		cfg.WALSyncMode = config.SyncNone
	}
	if err := cfg.SaveManifest(dir); err != nil {
		return nil, err
	}
	return engine.NewEngineFacade(dir)
}

type walRec struct {
	file, idx, last, pos int // file number, index inside the file, index of the file's last record, position in the directory
	e                    *wal.Entry
}

func replayPerFile(dir string) (recs []walRec, err error) {
	defer func() {
		if p := recover(); p != nil {
			err = fmt.Errorf("panic %v", p)
		}
	}()
	for fi, f := range walFiles(dir) {
		var es []*wal.Entry
		if _, e := wal.ReplayWALFile(f, func(e *wal.Entry) error { es = append(es, e); return nil }); e != nil {
			return recs, e
		}
		for i, e := range es {
			recs = append(recs, walRec{fi, i, len(es) - 1, len(recs), e})
		}
	}
	return recs, nil
}

// logCheck compares the replayed log directory with the acknowledged / failed writes, at full strength (D19 is repaired):
// every acknowledged put exactly once with its key, a failed put nowhere, delete records per key = acknowledged deletes
// (a failed delete leaves nothing), and the sequence numbers strictly increasing in log order (unique, never reused
// across a rotation: C08). Returns the problems and the number of records.
func logCheck(dir string, ops []*linOp) (bad []string, nrec int) {
	recs, err := replayPerFile(filepath.Join(dir, "wal"))
	if err != nil {
		return []string{"log-replay-failed:" + errTok(err)}, 0
	}
	byVal := map[string][]walRec{}
	delRecs := map[string]int{}
	var prev *walRec
	seqBad := 0
	for i := range recs {
		r := recs[i]
		if prev != nil && r.e.SequenceNumber <= prev.e.SequenceNumber {
			if seqBad == 0 {
				bad = append(bad, fmt.Sprintf("seq-not-increasing-%d@file%d.%d-then-%d@file%d.%d", prev.e.SequenceNumber, prev.file, prev.idx,
					r.e.SequenceNumber, r.file, r.idx))
			}
			seqBad++
		}
		prev = &recs[i]
		if r.e.Type == wal.OpTypePut {
			byVal[string(r.e.Value)] = append(byVal[string(r.e.Value)], r)
		} else {
			delRecs[string(r.e.Key)]++
		}
	}
	if seqBad > 1 {
		bad = append(bad, fmt.Sprintf("seq-not-increasing-x%d", seqBad))
	}
	ackDel, errDel := map[string]int{}, map[string]int{}
	for _, o := range ops {
		k := string(linKey(o.key))
		switch {
		case o.kind == 'p' && o.ok:
			if rs := byVal[o.val]; len(rs) != 1 || string(rs[0].e.Key) != k {
				bad = append(bad, fmt.Sprintf("acked-put-%s-in-log-%d-times", o.val, len(rs)))
			}
		case o.kind == 'p':
			if rs := byVal[o.val]; len(rs) != 0 {
				bad = append(bad, fmt.Sprintf("failed-put-%s-in-log-%d-times(%s)", o.val, len(rs), o.errTxt))
			}
		case o.kind == 'd' && o.ok:
			ackDel[k]++
		case o.kind == 'd':
			errDel[k]++
		}
	}
	keys := map[string]bool{}
	for k := range delRecs {
		keys[k] = true
	}
	for k := range ackDel {
		keys[k] = true
	}
	for k := range keys {
		if delRecs[k] != ackDel[k] {
			bad = append(bad, fmt.Sprintf("deletes-of-%s-in-log-%d-acked-%d-failed-%d", k, delRecs[k], ackDel[k], errDel[k]))
		}
	}
	sort.Strings(bad)
	if len(bad) > 8 {
		bad = append(bad[:8], fmt.Sprintf("+%d-more", len(bad)-8))
	}
	return bad, len(recs)
}

func linStress(r *runner, p map[string]string) string {
	seed, threads, nops, keys := int64(atoi(p["seed"])), atoi(p["threads"]), atoi(p["ops"]), atoi(p["keys"])
	if procs := atoi(p["procs"]); procs > 0 {
		defer runtime.GOMAXPROCS(runtime.GOMAXPROCS(procs))
	}
	dir := r.tempDir()
	e, err := openLinEngine(dir, atoi(p["mem"]), p["sync"])
	if err != nil {
		return "bad open " + errTok(err)
	}
	y := &yielder{seed: uint64(seed), percent: uint64(atoi(p["yield"]))}
	verifhook.Set(y.at)
	defer verifhook.Set(nil)
	t0 := time.Now()
	now := func() int64 { return int64(time.Since(t0)) }
	hist := make([][]*linOp, threads)
	var wg sync.WaitGroup
	var panicked atomic.Value
	stop := make(chan struct{})
	var helpers sync.WaitGroup
	// the last-sequence statistic the engine reports never goes backwards while clients write (C08: numbers only grow)
	var seqRegress atomic.Value
	helpers.Add(1)
	go func() {
		defer helpers.Done()
		var hi uint64
		for {
			select {
			case <-stop:
				return
			default:
			}
			var cur uint64
			switch v := e.GetStats()["storage_last_sequence"].(type) {
			case uint64:
				cur = v
			case int:
				cur = uint64(v)
			case int64:
				cur = uint64(v)
			}
			if cur < hi && seqRegress.Load() == nil {
				seqRegress.Store(fmt.Sprintf("last_sequence-went-backwards-%d-then-%d", hi, cur))
			}
			if cur > hi {
				hi = cur
			}
			runtime.Gosched()
		}
	}()
	if p["compact"] == "1" {
		helpers.Add(1)
		go func() {
			defer helpers.Done()
			for {
				select {
				case <-stop:
					return
				case <-time.After(3 * time.Millisecond):
					e.TriggerCompaction()
				}
			}
		}()
	}
	flushPause := 500 * time.Microsecond
	if p["flush"] == "2" { // back-to-back
		flushPause = 0
	}
	if p["flush"] == "1" || p["flush"] == "2" { // explicit flushes (FlushImMemTables rotates the log whenever the active table is non-empty)
		helpers.Add(1)
		go func() {
			defer helpers.Done()
			for {
				select {
				case <-stop:
					return
				case <-time.After(flushPause):
					e.FlushImMemTables()
				}
			}
		}()
	}
	pad := strings.Repeat("x", 24)
	for t := 0; t < threads; t++ {
		wg.Add(1)
		go func(t int) {
			defer wg.Done()
			defer func() {
				if x := recover(); x != nil {
					panicked.Store(fmt.Sprint(x))
				}
			}()
			rnd := rand.New(rand.NewSource(seed*131 + int64(t)))
			var scratch []byte
			for i := 0; i < nops; i++ {
				o := &linOp{key: rnd.Intn(keys), tid: t}
				k := linKey(o.key)
				switch c := rnd.Intn(100); {
				case c < 45:
					o.kind, o.val = 'p', fmt.Sprintf("v%d.%d.%s", t, i, pad[:rnd.Intn(len(pad))])
					// one scratch buffer per client, reused for every value and overwritten as soon as Put has returned
					scratch = append(scratch[:0], o.val...)
					o.call = now()
					err := e.Put(k, scratch)
					o.ret = now()
					for j := range scratch {
						scratch[j] = '#'
					}
					o.ok = err == nil
					if err != nil {
						o.errTxt = errTok(err)
					}
				case c < 60:
					o.kind = 'd'
					o.call = now()
					err := e.Delete(k)
					o.ret = now()
					o.ok = err == nil
					if err != nil {
						o.errTxt = errTok(err)
					}
				default:
					o.kind = 'g'
					o.call = now()
					v, err := e.Get(k)
					o.ret = now()
					switch {
					case err == nil:
						o.ok, o.val = true, string(v)
					case errors.Is(err, engine.ErrKeyNotFound) || errors.Is(err, storage.ErrKeyNotFound):
						o.ok = true
					default:
						o.errTxt = errTok(err)
					}
				}
				hist[t] = append(hist[t], o)
			}
		}(t)
	}
	finished := make(chan struct{})
	go func() { wg.Wait(); close(finished) }()
	select {
	case <-finished:
	case <-time.After(patience(120 * time.Second)):
		buf := make([]byte, 1<<20)
		os.Stderr.Write(buf[:runtime.Stack(buf, true)])
		return "bad hang clients-did-not-finish"
	}
	close(stop)
	helpers.Wait()
	y.quiet.Store(true)
	if x := panicked.Load(); x != nil {
		return "bad panic " + strings.ReplaceAll(x.(string), " ", "_")
	}
	// final reads (after everything returned), appended to the history
	var all []*linOp
	for _, h := range hist {
		all = append(all, h...)
	}
	for k := 0; k < keys; k++ {
		o := &linOp{kind: 'g', key: k, tid: -1, call: now()}
		v, err := e.Get(linKey(k))
		o.ret = now()
		if err == nil {
			o.ok, o.val = true, string(v)
		} else if errors.Is(err, engine.ErrKeyNotFound) || errors.Is(err, storage.ErrKeyNotFound) {
			o.ok = true
		} else {
			return "bad final-read " + errTok(err)
		}
		all = append(all, o)
	}
	stats := e.GetStats()
	if err := e.Close(); err != nil {
		return "bad close " + errTok(err)
	}
	// Before 3b93c94 Close did not wait for a rotation that the flush goroutine had in flight (D40); kept as a guard: the
	// log directory is read only when no rotateWAL call is between its first and last hook site.
	for deadline := time.Now().Add(patience(30 * time.Second)); y.rotating.Load() != 0; time.Sleep(200 * time.Microsecond) {
		if time.Now().After(deadline) {
			return "bad hang rotation-did-not-finish-after-close"
		}
	}
	time.Sleep(time.Millisecond)
	nerr, readErr, firstErr := 0, "", ""
	perKey := map[int][]*linOp{}
	for _, o := range all {
		perKey[o.key] = append(perKey[o.key], o)
		if o.kind != 'g' && !o.ok {
			nerr++
			if firstErr == "" {
				firstErr = o.errTxt
			}
		}
		if o.kind == 'g' && !o.ok {
			readErr = o.errTxt
		}
	}
	if readErr != "" {
		return "bad read-error " + readErr
	}
	for k := 0; k < keys; k++ {
		if ok, why := checkRegister(perKey[k]); !ok {
			return fmt.Sprintf("bad lin key=%d history=%s", k, why)
		}
	}
	bad, nrec := logCheck(dir, all)
	if r := seqRegress.Load(); r != nil {
		bad = append(bad, r.(string))
	}
	nsites := 0
	y.sites.Range(func(_, _ any) bool { nsites++; return true })
	tail := fmt.Sprintf("ops=%d writeErrs=%d logRecords=%d walFiles=%d flushes=%v sites=%d", len(all), nerr, nrec,
		len(walFiles(filepath.Join(dir, "wal"))), stats["flush_count"], nsites)
	if firstErr != "" {
		tail += " errs=" + firstErr
	}
	if len(bad) > 0 {
		return "bad log " + strings.Join(bad, ",") + " " + tail
	}
	return "ok lin " + tail
}

// linD19: the D19 window made deterministic (must pass since f92d9b5: the Put succeeds, or fails without any effect). A writer is parked (by the hook) inside wal.Append right after its record
// was buffered; a flush then marks the log Rotating and is parked until the writer's Put has returned.
func linD19(r *runner, p map[string]string) string {
	dir := r.tempDir()
	e, err := openLinEngine(dir, 1<<20, "immediate")
	if err != nil {
		return "bad open " + errTok(err)
	}
	if err := e.Put([]byte("k0"), []byte("v0")); err != nil {
		return "bad put0 " + errTok(err)
	}
	buffered, rotSet, putDone := make(chan struct{}), make(chan struct{}), make(chan struct{})
	var once1, once2 sync.Once
	var armed atomic.Bool
	timeout := func(c chan struct{}) {
		select {
		case <-c:
		case <-time.After(patience(20 * time.Second)):
		}
	}
	verifhook.Set(func(site string) {
		if !armed.Load() {
			return
		}
		switch site {
		case "wal.append.buffered":
			once1.Do(func() { close(buffered); timeout(rotSet) })
		case "mgr.rotate.setRotating":
			once2.Do(func() { close(rotSet); timeout(putDone) })
		}
	})
	defer verifhook.Set(nil)
	armed.Store(true)
	var putErr, flushErr error
	flushDone := make(chan struct{})
	go func() { putErr = e.Put([]byte("k1"), []byte("v1-d19")); close(putDone) }()
	timeout(buffered)
	go func() { flushErr = e.FlushImMemTables(); close(flushDone) }()
	timeout(putDone)
	timeout(flushDone)
	armed.Store(false)
	select {
	case <-flushDone:
	default:
		return "bad hang d19-flush"
	}
	_, getErr := e.Get([]byte("k1"))
	inMem := getErr == nil
	if err := e.Close(); err != nil {
		return "bad close " + errTok(err)
	}
	recs, err := replayPerFile(filepath.Join(dir, "wal"))
	if err != nil {
		return "bad log-replay " + errTok(err)
	}
	inLog, lastOfFile := 0, true
	for _, rc := range recs {
		if string(rc.e.Value) == "v1-d19" {
			inLog++
			lastOfFile = lastOfFile && rc.idx == rc.last
		}
	}
	e2, err := engine.NewEngineFacade(dir)
	if err != nil {
		return "bad reopen " + errTok(err)
	}
	_, err2 := e2.Get([]byte("k1"))
	e2.Close()
	afterReopen := err2 == nil
	desc := fmt.Sprintf("putErr=%v flushErr=%v inMemory=%v inLog=%d visibleAfterReopen=%v", putErr != nil, flushErr != nil, inMem, inLog, afterReopen)
	switch {
	case putErr == nil && inMem && inLog == 1 && afterReopen: // the repaired behaviour: the sync of a rotating log succeeds
		return "ok d19 " + desc
	case putErr != nil && !inMem && inLog == 0 && !afterReopen: // a failure is acceptable only without any effect
		return "ok d19 failed-without-effect " + desc
	}
	return "bad d19 " + desc
}

// linSeqRot (C06/C08): writers at full speed (puts with unique values, deletes) for a fixed time against back-to-back
// explicit flushes, i.e. hundreds of log rotations per second (database on /dev/shm when available so that fsync does
// not bound the rotation rate). Oracle on the replayed log directory: every acknowledged put exactly once, a failed put
// nowhere, delete records per key = acknowledged deletes, and the sequence numbers strictly increasing in log order
// (unique; handed over correctly at every rotation).
func linSeqRot(r *runner, p map[string]string) string {
	seed, threads, dur := int64(atoi(p["seed"])), atoi(p["threads"]), time.Duration(atoi(p["ms"]))*time.Millisecond
	if procs := atoi(p["procs"]); procs > 0 {
		defer runtime.GOMAXPROCS(runtime.GOMAXPROCS(procs))
	}
	dir := ""
	if st, err := os.Stat("/dev/shm"); err == nil && st.IsDir() {
		if d, err := os.MkdirTemp("/dev/shm", "kvh-"); err == nil {
			dir = d
			r.tmp = append(r.tmp, d)
		}
	}
	if dir == "" {
		dir = r.tempDir()
	}
	e, err := openLinEngine(dir, 256<<10, "none") // small tables: a flush stays cheap, so rotations stay frequent
	if err != nil {
		return "bad open " + errTok(err)
	}
	y := &yielder{seed: uint64(seed)}
	y.quiet.Store(true)
	verifhook.Set(y.at)
	defer verifhook.Set(nil)
	var stop atomic.Bool
	var helpers, wg sync.WaitGroup
	helpers.Add(1)
	go func() {
		defer helpers.Done()
		for !stop.Load() {
			e.FlushImMemTables()
		}
	}()
	// the last-sequence statistic never goes backwards while clients write
	var seqRegress atomic.Value
	helpers.Add(1)
	go func() {
		defer helpers.Done()
		var hi uint64
		for !stop.Load() {
			var cur uint64
			switch v := e.GetStats()["storage_last_sequence"].(type) {
			case uint64:
				cur = v
			case int:
				cur = uint64(v)
			case int64:
				cur = uint64(v)
			}
			if cur < hi && seqRegress.Load() == nil {
				seqRegress.Store(fmt.Sprintf("last_sequence-went-backwards-%d-then-%d", hi, cur))
			}
			if cur > hi {
				hi = cur
			}
			runtime.Gosched()
		}
	}()
	const maxOps = 1 << 20
	acked := make([][]uint8, threads) // per thread and op index: 0 not issued, 1 put acked, 2 put failed
	ackDel, errDel := make([][4]int, threads), make([][4]int, threads)
	firstErr := make([]string, threads)
	deadline := time.Now().Add(dur)
	for t := 0; t < threads; t++ {
		wg.Add(1)
		acked[t] = make([]uint8, 0, 1<<16)
		go func(t int) {
			defer wg.Done()
			rnd := rand.New(rand.NewSource(seed*257 + int64(t)))
			for i := 0; i < maxOps && (i%64 != 0 || time.Now().Before(deadline)); i++ {
				k := rnd.Intn(4)
				var err error
				if rnd.Intn(5) == 0 {
					if err = e.Delete(linKey(k)); err == nil {
						ackDel[t][k]++
					} else {
						errDel[t][k]++
					}
					acked[t] = append(acked[t], 0)
				} else {
					if err = e.Put(linKey(k), []byte(fmt.Sprintf("s%d.%d", t, i))); err == nil {
						acked[t] = append(acked[t], 1)
					} else {
						acked[t] = append(acked[t], 2)
					}
				}
				if err != nil && firstErr[t] == "" {
					firstErr[t] = errTok(err)
				}
			}
		}(t)
	}
	finished := make(chan struct{})
	go func() { wg.Wait(); close(finished) }()
	select {
	case <-finished:
	case <-time.After(dur + patience(120*time.Second)):
		return "bad hang writers-did-not-finish"
	}
	stop.Store(true)
	helpers.Wait()
	if err := e.Close(); err != nil {
		return "bad close " + errTok(err)
	}
	for dl := time.Now().Add(patience(30 * time.Second)); y.rotating.Load() != 0; time.Sleep(200 * time.Microsecond) {
		if time.Now().After(dl) {
			return "bad hang rotation-did-not-finish-after-close"
		}
	}
	recs, err := replayPerFile(filepath.Join(dir, "wal"))
	if err != nil {
		return "bad log-replay " + errTok(err)
	}
	var bad []string
	add := func(format string, a ...any) {
		if len(bad) < 6 {
			bad = append(bad, fmt.Sprintf(format, a...))
		}
	}
	if r := seqRegress.Load(); r != nil {
		add("%s", r.(string))
	}
	seen := make([][]uint8, threads)
	for t := range seen {
		seen[t] = make([]uint8, len(acked[t]))
	}
	var delRecs [4]int
	var prev *walRec
	for i := range recs {
		rc := recs[i]
		if prev != nil && rc.e.SequenceNumber <= prev.e.SequenceNumber {
			add("seq-not-increasing-%d@file%d.%d-then-%d@file%d.%d", prev.e.SequenceNumber, prev.file, prev.idx, rc.e.SequenceNumber, rc.file, rc.idx)
		}
		prev = &recs[i]
		var k int
		fmt.Sscanf(string(rc.e.Key), "key-%d", &k)
		if rc.e.Type != wal.OpTypePut {
			delRecs[k%4]++
			continue
		}
		var t, i2 int
		if n, _ := fmt.Sscanf(string(rc.e.Value), "s%d.%d", &t, &i2); n != 2 || t < 0 || t >= threads || i2 < 0 || i2 >= len(seen[t]) {
			add("foreign-record-%s", hx(rc.e.Value))
			continue
		}
		if seen[t][i2] < 255 {
			seen[t][i2]++
		}
	}
	nops, nerr, errTxt := 0, 0, ""
	for t := 0; t < threads; t++ {
		nops += len(acked[t])
		if firstErr[t] != "" && errTxt == "" {
			errTxt = firstErr[t]
		}
		for i, a := range acked[t] {
			switch {
			case a == 1 && seen[t][i] != 1:
				add("acked-put-s%d.%d-in-log-%d-times", t, i, seen[t][i])
			case a == 2 && seen[t][i] != 0:
				add("failed-put-s%d.%d-in-log-%d-times", t, i, seen[t][i])
			}
			if a == 2 {
				nerr++
			}
		}
	}
	for k := 0; k < 4; k++ {
		a, f := 0, 0
		for t := 0; t < threads; t++ {
			a, f = a+ackDel[t][k], f+errDel[t][k]
		}
		nerr += f
		if delRecs[k] != a {
			add("deletes-of-key-%02d-in-log-%d-acked-%d-failed-%d", k, delRecs[k], a, f)
		}
	}
	tail := fmt.Sprintf("ops=%d writeErrs=%d logRecords=%d walFiles=%d", nops, nerr, len(recs), len(walFiles(filepath.Join(dir, "wal"))))
	if errTxt != "" {
		tail += " errs=" + errTxt
	}
	if len(bad) > 0 {
		return "bad log " + strings.Join(bad, ",") + " " + tail
	}
	return "ok seqrot " + tail
}

func runLin(r *runner) {
	for {
		ws, ok := r.next()
		if !ok {
			break
		}
		var out string
		func() {
			defer func() {
				if x := recover(); x != nil {
					out = "bad panic " + strings.ReplaceAll(fmt.Sprint(x), " ", "_")
				}
			}()
			switch ws[0] {
			case "stress":
				out = linStress(r, parseKV(ws[1:]))
			case "seqrot":
				out = linSeqRot(r, parseKV(ws[1:]))
			case "d19":
				out = linD19(r, parseKV(ws[1:]))
			default:
				out = "bad-op"
			}
		}()
		r.dropTemp()
		r.emit(out)
	}
}
