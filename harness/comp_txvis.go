package main

// Component `txvis` (C03, visibility clause; implementation-only): while a writer commits transactions that set
// keys k0..k(m-1) to the round number, plain readers read k0 and then k(m-1). A commit is atomic iff the second
// read is never older than the first (once k0 shows round n, the whole transaction n is visible).
// The yield hook sleeps between the memtable inserts of a batch to widen the window.
//
//	vis seed=<n> keys=<m> rounds=<r> readers=<k>   ->  ok reads=<n> rounds=<r> | bad <what>

import (
	"bufio"
	"fmt"
	"math/rand"
	"strconv"
	"strings"
	"sync"
	"sync/atomic"
	"time"

	"github.com/KevoDB/kevo/pkg/verifhook"
)

func init() {
	components["txvis"] = &component{gen: genTxVis, run: runTxVis}
}

func genTxVis(g *gen, n int, tier string, w *bufio.Writer) {
	for c := 0; c < n; c++ {
		fmt.Fprintf(w, "# case %d\n", c)
		if c%4 == 1 {
			// a commit that the log rejects (one entry larger than a log record): no trace, lock released
			// (number of small entries, position of the oversized one in key order = order in the log batch): mostly from a table of
			// combinations that matter (first / last / middle of small and of very large write sets), sometimes drawn
			table := [][2]int{{1, 0}, {3, 3}, {20, 20}, {1100, 1100}, {2500, 1250}, {20, 10}, {1100, 0}, {2500, 2500}, {1100, 1030}}
			small, pos := 0, 0
			if k := g.intn(len(table) + 2); k < len(table) {
				small, pos = table[k][0], table[k][1]
			} else {
				small = g.pick(1, 3, 20, 1100, 2500)
				pos = g.pick(0, 1, 2, small/2, small, small)
			}
			fmt.Fprintf(w, "failcommit small=%d big=%d pos=%d sync=%d\n", small, 32760+g.intn(9000), pos, g.pick(0, 2))
			continue
		}
		fmt.Fprintf(w, "vis seed=%d keys=%d rounds=%d readers=%d\n", g.intn(1<<30), g.pick(2, 3, 8, 40), g.pick(30, 60, 120), g.pick(2, 3, 4))
	}
}

func kvInt(s string) int {
	i := strings.Index(s, "=")
	v, _ := strconv.Atoi(s[i+1:])
	return v
}

func txVisScenario(r *runner, ws []string) (out string) {
	defer func() {
		if p := recover(); p != nil {
			out = "bad panic " + strings.ReplaceAll(fmt.Sprint(p), " ", "_")
		}
	}()
	seed, m, rounds, readers := kvInt(ws[1]), kvInt(ws[2]), kvInt(ws[3]), kvInt(ws[4])
	x := &engRun{r: r, dir: r.tempDir()}
	if err := x.openDir(1 << 20); err != nil {
		return "bad open " + errTok(err)
	}
	defer func() { x.e.Close() }()
	var hmu sync.Mutex
	rng := rand.New(rand.NewSource(int64(seed)))
	verifhook.Set(func(site string) {
		if site == "mgr.batch.entry" || site == "mgr.batch.afterLog" || site == "mgr.get.afterMem" || site == "tx.commit.beforeApply" {
			hmu.Lock()
			d := time.Duration(rng.Intn(150)) * time.Microsecond
			hmu.Unlock()
			time.Sleep(d)
		}
	})
	defer verifhook.Set(nil)
	keys := make([][]byte, m)
	for i := range keys {
		keys[i] = []byte(fmt.Sprintf("vis%04d", i))
	}
	ver := func(b []byte) int {
		v, _ := strconv.Atoi(string(b))
		return v
	}
	var done atomic.Bool
	var reads atomic.Int64
	var bad atomic.Value
	var wg sync.WaitGroup
	for i := 0; i < readers; i++ {
		wg.Add(1)
		if i%2 == 1 {
			// a reader inside a read-only transaction: it excludes every commit for as long as it is open, so both reads show
			// the SAME transaction
			go func() {
				defer wg.Done()
				for !done.Load() {
					tx, err := x.e.BeginTransaction(true)
					if err != nil {
						continue
					}
					a, err1 := tx.Get(keys[0])
					time.Sleep(time.Duration(20) * time.Microsecond)
					b, err2 := tx.Get(keys[m-1])
					tx.Commit()
					if (err1 == nil) != (err2 == nil) || (err1 == nil && ver(a) != ver(b)) {
						bad.Store(fmt.Sprintf("read-only transaction read first-key=v%d last-key=v%d (it saw a part of a committed transaction)", ver(a), ver(b)))
						return
					}
					reads.Add(2)
				}
			}()
			continue
		}
		go func() {
			defer wg.Done()
			for !done.Load() {
				a, err1 := x.e.Get(keys[0])
				b, err2 := x.e.Get(keys[m-1])
				if err1 == nil && (err2 != nil || ver(b) < ver(a)) {
					bad.Store(fmt.Sprintf("first-key=v%d last-key=v%d (a strict subset of transaction %d was visible)", ver(a), ver(b), ver(a)))
					return
				}
				reads.Add(2)
			}
		}()
	}
	werr := ""
	for n := 1; n <= rounds && bad.Load() == nil; n++ {
		tx, err := x.e.BeginTransaction(false)
		if err != nil {
			werr = errTok(err)
			break
		}
		for _, k := range keys {
			tx.Put(k, []byte(strconv.Itoa(n)))
		}
		if err := tx.Commit(); err != nil {
			werr = errTok(err)
			break
		}
	}
	done.Store(true)
	wg.Wait()
	if b := bad.Load(); b != nil {
		return "bad " + strings.ReplaceAll(b.(string), " ", "_")
	}
	if werr != "" {
		return "bad writer " + werr
	}
	return fmt.Sprintf("ok reads=%d rounds=%d", reads.Load(), rounds)
}

// failcommit: a read-write transaction with `small` small puts and one put of `big` bytes (beyond one log record when
// big > 32750) placed at position pos among the keys; the commit must fail as a whole: no key of the transaction is
// visible now or after a restart, a second finish reports closed, and a new writer can begin at once.
func failCommitScenario(r *runner, ws []string) (out string) {
	defer func() {
		if p := recover(); p != nil {
			out = "bad panic " + strings.ReplaceAll(fmt.Sprint(p), " ", "_")
		}
	}()
	small, big, pos, syncMode := kvInt(ws[1]), kvInt(ws[2]), kvInt(ws[3]), kvInt(ws[4])
	x := &engRun{r: r, dir: r.tempDir()}
	if err := openCrashEngine(x, syncMode, 1<<20, true); err != nil {
		return "bad open " + errTok(err)
	}
	defer func() {
		if x.e != nil {
			x.e.Close()
		}
	}()
	if err := x.e.Put([]byte("base"), []byte("B")); err != nil {
		return "bad put " + errTok(err)
	}
	tx, err := x.e.BeginTransaction(false)
	if err != nil {
		return "bad begin " + errTok(err)
	}
	var keys []string
	for i := 0; i <= small; i++ {
		k := fmt.Sprintf("f%05d", i)
		keys = append(keys, k)
		v := []byte("s")
		if i == pos%(small+1) {
			v = make([]byte, big)
		}
		if err := tx.Put([]byte(k), v); err != nil {
			return "bad txput " + errTok(err)
		}
	}
	cerr := tx.Commit()
	expectFail := 13+3+4+big > 32768
	if expectFail && cerr == nil {
		return "bad commit-of-oversized-entry-succeeded"
	}
	if !expectFail && cerr != nil {
		return "bad commit-failed " + errTok(cerr)
	}
	if rerr := tx.Rollback(); rerr == nil {
		return "bad second-finish-accepted"
	}
	// a new writer must be able to begin at once
	type res struct{ err error }
	ch := make(chan res, 1)
	go func() {
		t2, err := x.e.BeginTransaction(false)
		if err == nil {
			t2.Put([]byte("after"), []byte("A"))
			err = t2.Commit()
		}
		ch <- res{err}
	}()
	select {
	case rr := <-ch:
		if rr.err != nil {
			return "bad next-writer " + errTok(rr.err)
		}
	case <-time.After(patience(3 * time.Second)):
		x.e = nil // the engine is wedged: do not try to close it
		return "bad lock-leaked-after-failed-commit (a new read-write transaction could not begin within 3 s)"
	}
	check := func(when string) string {
		for _, k := range keys {
			_, err := x.e.Get([]byte(k))
			if expectFail && err == nil {
				return "bad failed-transaction-left-a-trace key=" + k + " " + when
			}
			if !expectFail && err != nil {
				return "bad committed-key-missing key=" + k + " " + when
			}
		}
		for _, kv := range [][2]string{{"base", "B"}, {"after", "A"}} {
			v, err := x.e.Get([]byte(kv[0]))
			if err != nil || string(v) != kv[1] {
				return "bad lost key=" + kv[0] + " " + when
			}
		}
		return ""
	}
	if p := check("before-restart"); p != "" {
		return p
	}
	if err := x.e.Close(); err != nil {
		return "bad close " + errTok(err)
	}
	x.e = nil
	if err := openCrashEngine(x, syncMode, 1<<20, false); err != nil {
		return "bad reopen " + errTok(err)
	}
	if p := check("after-restart"); p != "" {
		return p
	}
	return fmt.Sprintf("ok failed=%v keys=%d", expectFail, len(keys))
}

func runTxVis(r *runner) {
	for {
		ws, ok := r.next()
		if !ok {
			break
		}
		if ws[0] != "vis" && ws[0] != "failcommit" {
			r.emit("bad-op")
			continue
		}
		done := make(chan string, 1)
		go func() {
			if ws[0] == "failcommit" {
				done <- failCommitScenario(r, ws)
			} else {
				done <- txVisScenario(r, ws)
			}
		}()
		select {
		case s := <-done:
			r.emit(s)
		case <-time.After(patience(60 * time.Second)):
			r.emit("bad hang")
		}
	}
}
