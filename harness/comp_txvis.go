package main

// Component `txvis` (C03, visibility clause; implementation-only): while a writer commits transactions that set
// keys k0..k(m-1) to the round number, plain readers read k0 and then k(m-1). A commit is atomic iff the second
// read is never older than the first (once k0 shows round n, the whole transaction n is visible).
// The yield hook sleeps between the memtable inserts of a batch to widen the window.
//
//	vis seed=<n> keys=<m> rounds=<r> readers=<k>   ->  ok reads=<n> rounds=<r> | bad <what>

import (
	"bufio"
	"fmt"
	"math/rand"
	"strconv"
	"strings"
	"sync"
	"sync/atomic"
	"time"

	"github.com/KevoDB/kevo/pkg/verifhook"
)

func init() {
	components["txvis"] = &component{gen: genTxVis, run: runTxVis}
}

func genTxVis(g *gen, n int, tier string, w *bufio.Writer) {
	for c := 0; c < n; c++ {
		fmt.Fprintf(w, "# case %d\n", c)
		fmt.Fprintf(w, "vis seed=%d keys=%d rounds=%d readers=%d\n", g.intn(1<<30), g.pick(2, 3, 8, 40), g.pick(30, 60, 120), g.pick(1, 2, 4))
	}
}

func kvInt(s string) int {
	i := strings.Index(s, "=")
	v, _ := strconv.Atoi(s[i+1:])
	return v
}

func txVisScenario(r *runner, ws []string) (out string) {
	defer func() {
		if p := recover(); p != nil {
			out = "bad panic " + strings.ReplaceAll(fmt.Sprint(p), " ", "_")
		}
	}()
	seed, m, rounds, readers := kvInt(ws[1]), kvInt(ws[2]), kvInt(ws[3]), kvInt(ws[4])
	x := &engRun{r: r, dir: r.tempDir()}
	if err := x.openDir(1 << 20); err != nil {
		return "bad open " + errTok(err)
	}
	defer func() { x.e.Close() }()
	var hmu sync.Mutex
	rng := rand.New(rand.NewSource(int64(seed)))
	verifhook.Set(func(site string) {
		if site == "mgr.batch.entry" || site == "mgr.batch.afterLog" || site == "mgr.get.afterMem" {
			hmu.Lock()
			d := time.Duration(rng.Intn(150)) * time.Microsecond
			hmu.Unlock()
			time.Sleep(d)
		}
	})
	defer verifhook.Set(nil)
	keys := make([][]byte, m)
	for i := range keys {
		keys[i] = []byte(fmt.Sprintf("vis%04d", i))
	}
	ver := func(b []byte) int {
		v, _ := strconv.Atoi(string(b))
		return v
	}
	var done atomic.Bool
	var reads atomic.Int64
	var bad atomic.Value
	var wg sync.WaitGroup
	for i := 0; i < readers; i++ {
		wg.Add(1)
		go func() {
			defer wg.Done()
			for !done.Load() {
				a, err1 := x.e.Get(keys[0])
				b, err2 := x.e.Get(keys[m-1])
				if err1 == nil && (err2 != nil || ver(b) < ver(a)) {
					bad.Store(fmt.Sprintf("first-key=v%d last-key=v%d (a strict subset of transaction %d was visible)", ver(a), ver(b), ver(a)))
					return
				}
				reads.Add(2)
			}
		}()
	}
	werr := ""
	for n := 1; n <= rounds && bad.Load() == nil; n++ {
		tx, err := x.e.BeginTransaction(false)
		if err != nil {
			werr = errTok(err)
			break
		}
		for _, k := range keys {
			tx.Put(k, []byte(strconv.Itoa(n)))
		}
		if err := tx.Commit(); err != nil {
			werr = errTok(err)
			break
		}
	}
	done.Store(true)
	wg.Wait()
	if b := bad.Load(); b != nil {
		return "bad " + strings.ReplaceAll(b.(string), " ", "_")
	}
	if werr != "" {
		return "bad writer " + werr
	}
	return fmt.Sprintf("ok reads=%d rounds=%d", reads.Load(), rounds)
}

func runTxVis(r *runner) {
	for {
		ws, ok := r.next()
		if !ok {
			break
		}
		if ws[0] != "vis" {
			r.emit("bad-op")
			continue
		}
		done := make(chan string, 1)
		go func() { done <- txVisScenario(r, ws) }()
		select {
		case s := <-done:
			r.emit(s)
		case <-time.After(60 * time.Second):
			r.emit("bad hang")
		}
	}
}
