// kvharness — drives the real KevoDB/kevo code (built from /repo's working tree) through the same line
// protocol as the Lean model driver (kvmodel), and generates the scripts.
//
//	kvharness <component> gen -seed S -n N [-tier quick|thorough]   > script
//	kvharness <component> run                                        < script > impl.out
package main

import (
	"bufio"
	"flag"
	"fmt"
	"os"
	"strings"
	"syscall"
)

type component struct {
	gen func(g *gen, n int, tier string, w *bufio.Writer)
	run func(r *runner)
}

var components = map[string]*component{}

func main() {
	if len(os.Args) < 3 {
		fmt.Fprintln(os.Stderr, "usage: kvharness <component> gen|run [flags]")
		os.Exit(2)
	}
	c, ok := components[os.Args[1]]
	if !ok {
		fmt.Fprintln(os.Stderr, "unknown component", os.Args[1])
		os.Exit(2)
	}
	fs := flag.NewFlagSet("kvharness", flag.ExitOnError)
	seed := fs.Int64("seed", 1, "PRNG seed")
	n := fs.Int("n", 100, "number of cases")
	tier := fs.String("tier", "quick", "quick|thorough")
	fs.Parse(os.Args[3:])
	switch os.Args[2] {
	case "gen":
		w := bufio.NewWriterSize(os.Stdout, 1<<20)
		c.gen(newGen(*seed), *n, *tier, w)
		w.Flush()
	case "run":
		// the code under test prints to stdout/stderr: keep our protocol output on a private descriptor
		fd, err := syscall.Dup(1)
		if err != nil {
			panic(err)
		}
		out := os.NewFile(uintptr(fd), "protocol-out")
		devnull, _ := os.OpenFile(os.DevNull, os.O_WRONLY, 0)
		syscall.Dup2(int(devnull.Fd()), 1)
		if os.Getenv("VERIF_KEEP_STDERR") == "" {
			syscall.Dup2(int(devnull.Fd()), 2)
		}
		r := newRunner(os.Stdin, out)
		c.run(r)
		r.close()
	default:
		fmt.Fprintln(os.Stderr, "unknown mode", os.Args[2])
		os.Exit(2)
	}
}

// runner reads script lines and writes exactly one output line per non-empty input line.
type runner struct {
	in  *bufio.Scanner
	out *bufio.Writer
	tmp []string
}

func newRunner(in *os.File, out *os.File) *runner {
	sc := bufio.NewScanner(in)
	sc.Buffer(make([]byte, 1<<20), 1<<30)
	return &runner{in: sc, out: bufio.NewWriterSize(out, 1<<20)}
}

func (r *runner) next() ([]string, bool) {
	for r.in.Scan() {
		line := strings.TrimSpace(r.in.Text())
		if line == "" {
			continue
		}
		if strings.HasPrefix(line, "#") {
			r.emit(line)
			continue
		}
		return strings.Fields(line), true
	}
	return nil, false
}

func (r *runner) emit(s string) {
	r.out.WriteString(s)
	r.out.WriteByte('\n')
	r.out.Flush()
}

func (r *runner) tempDir() string {
	d, err := os.MkdirTemp("", "kvh-")
	if err != nil {
		panic(err)
	}
	r.tmp = append(r.tmp, d)
	return d
}

func (r *runner) dropTemp() {
	for _, d := range r.tmp {
		os.RemoveAll(d)
	}
	r.tmp = nil
}

func (r *runner) close() {
	r.out.Flush()
	r.dropTemp()
}
