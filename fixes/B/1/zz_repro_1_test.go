package block

import (
	"bytes"
	"fmt"
	"testing"
)

type reproEntry struct {
	key  []byte
	val  []byte // nil = tombstone
	seq  uint64
	tomb bool
}

func reproBuildBlock(t *testing.T, n int) (*Reader, []reproEntry) {
	t.Helper()
	b := NewBuilder()
	entries := make([]reproEntry, 0, n)
	for i := 0; i < n; i++ {
		e := reproEntry{
			key: []byte(fmt.Sprintf("key%04d", 2*i)),
			seq: uint64(1000 + 7*i),
		}
		if i%5 == 3 {
			e.val = nil
			e.tomb = true
		} else {
			e.val = []byte(fmt.Sprintf("value-%d-%s", i, bytes.Repeat([]byte("x"), i%9)))
		}
		if err := b.AddWithSequence(e.key, e.val, e.seq); err != nil {
			t.Fatalf("add: %v", err)
		}
		entries = append(entries, e)
	}
	var buf bytes.Buffer
	if _, err := b.Finish(&buf); err != nil {
		t.Fatalf("finish: %v", err)
	}
	r, err := NewReader(buf.Bytes())
	if err != nil {
		t.Fatalf("reader: %v", err)
	}
	return r, entries
}

func reproCheckAt(t *testing.T, what string, it *Iterator, e reproEntry) bool {
	t.Helper()
	ok := true
	if !it.Valid() {
		t.Errorf("%s: iterator invalid, want key %q", what, e.key)
		return false
	}
	if !bytes.Equal(it.Key(), e.key) {
		t.Errorf("%s: key = %q, want %q", what, it.Key(), e.key)
		ok = false
	}
	if it.SequenceNumber() != e.seq {
		t.Errorf("%s: seq = %d, want %d (key %q)", what, it.SequenceNumber(), e.seq, it.Key())
		ok = false
	}
	if it.IsTombstone() != e.tomb {
		t.Errorf("%s: tombstone = %v, want %v", what, it.IsTombstone(), e.tomb)
		ok = false
	}
	if e.tomb {
		if it.Value() != nil {
			t.Errorf("%s: value = %q, want nil", what, it.Value())
			ok = false
		}
	} else if it.Value() == nil || !bytes.Equal(it.Value(), e.val) {
		t.Errorf("%s: value = %q, want %q", what, it.Value(), e.val)
		ok = false
	}
	return ok
}

func reproCheckInvalid(t *testing.T, what string, it *Iterator) {
	t.Helper()
	if it.Valid() || it.Key() != nil {
		t.Errorf("%s: iterator valid at %q, want invalid", what, it.Key())
	}
	if it.Value() != nil {
		t.Errorf("%s: Value() = %q on invalid iterator", what, it.Value())
	}
	if it.SequenceNumber() != 0 || it.IsTombstone() {
		t.Errorf("%s: seq/tombstone not zero on invalid iterator", what)
	}
}

// reproCheckFrom checks that the iterator is at entries[idx] and that Next()
// walks through the rest of the block exactly, then becomes invalid.
func reproCheckFrom(t *testing.T, what string, it *Iterator, entries []reproEntry, idx int) {
	t.Helper()
	for j := idx; j < len(entries); j++ {
		if !reproCheckAt(t, fmt.Sprintf("%s +%d", what, j-idx), it, entries[j]) {
			return
		}
		more := it.Next()
		if more != (j+1 < len(entries)) {
			t.Errorf("%s +%d: Next() = %v, want %v", what, j-idx, more, j+1 < len(entries))
			return
		}
	}
	reproCheckInvalid(t, what+" end", it)
	if it.Next() {
		t.Errorf("%s: Next() after end returned true", what)
	}
}

func TestReproB1(t *testing.T) {
	for _, n := range []int{1, 2, 16, 17, 40, 100} {
		n := n
		t.Run(fmt.Sprintf("n=%d", n), func(t *testing.T) {
			r, entries := reproBuildBlock(t, n)

			// Forward iteration via SeekToFirst + Next.
			it := r.Iterator()
			it.SeekToFirst()
			reproCheckFrom(t, "SeekToFirst", it, entries, 0)

			// Forward iteration via Next on a fresh iterator.
			it = r.Iterator()
			if !it.Next() {
				t.Fatalf("fresh Next() = false")
			}
			reproCheckFrom(t, "fresh Next", it, entries, 0)

			// Seek to each present key, on a fresh and on a reused iterator.
			reused := r.Iterator()
			for i, e := range entries {
				it = r.Iterator()
				if !it.Seek(e.key) {
					t.Errorf("Seek(%q) = false", e.key)
				}
				reproCheckFrom(t, fmt.Sprintf("Seek(%q)", e.key), it, entries, i)

				if !reused.Seek(e.key) {
					t.Errorf("reused Seek(%q) = false", e.key)
				}
				reproCheckAt(t, fmt.Sprintf("reused Seek(%q)", e.key), reused, e)
				if i+1 < len(entries) {
					if !reused.Next() {
						t.Errorf("reused Seek(%q); Next() = false", e.key)
					}
					reproCheckAt(t, fmt.Sprintf("reused Seek(%q)+1", e.key), reused, entries[i+1])
				}
			}

			// Seek between keys: key%04d with odd number lands on next entry.
			for i := 0; i+1 < len(entries); i++ {
				target := []byte(fmt.Sprintf("key%04d", 2*i+1))
				it = r.Iterator()
				if !it.Seek(target) {
					t.Errorf("Seek(%q) = false", target)
				}
				reproCheckFrom(t, fmt.Sprintf("Seek(%q)", target), it, entries, i+1)
			}
			// A target that is a strict prefix-extension of a key.
			{
				target := append(append([]byte(nil), entries[0].key...), 0)
				it = r.Iterator()
				got := it.Seek(target)
				if len(entries) > 1 {
					if !got {
						t.Errorf("Seek(%q) = false", target)
					}
					reproCheckFrom(t, fmt.Sprintf("Seek(%q)", target), it, entries, 1)
				} else {
					if got {
						t.Errorf("Seek(%q) = true, want false", target)
					}
					reproCheckInvalid(t, fmt.Sprintf("Seek(%q)", target), it)
				}
			}

			// Seek before the first key.
			for _, target := range [][]byte{[]byte("a"), []byte("key"), {}, nil} {
				it = r.Iterator()
				if !it.Seek(target) {
					t.Errorf("Seek(%q) = false", target)
				}
				reproCheckFrom(t, fmt.Sprintf("Seek(%q)", target), it, entries, 0)
			}

			// Seek after the last key.
			for _, target := range [][]byte{
				[]byte(fmt.Sprintf("key%04d", 2*(n-1)+1)),
				[]byte("key9999"),
				[]byte("zzz"),
			} {
				it = r.Iterator()
				if it.Seek(target) {
					t.Errorf("Seek(%q) = true, want false", target)
				}
				reproCheckInvalid(t, fmt.Sprintf("Seek(%q)", target), it)
				if it.Next() {
					t.Errorf("Seek(%q); Next() = true at %q", target, it.Key())
				}
				// Also on an iterator that was positioned before.
				it = r.Iterator()
				it.SeekToFirst()
				if it.Seek(target) {
					t.Errorf("positioned Seek(%q) = true, want false", target)
				}
				reproCheckInvalid(t, fmt.Sprintf("positioned Seek(%q)", target), it)
				// The iterator must be reusable afterwards.
				it.SeekToFirst()
				reproCheckFrom(t, fmt.Sprintf("Seek(%q); SeekToFirst", target), it, entries, 0)
			}

			// SeekToLast.
			it = r.Iterator()
			it.SeekToLast()
			reproCheckFrom(t, "SeekToLast", it, entries, n-1)

			// SeekToLast after other positioning, then Seek back.
			it = r.Iterator()
			it.SeekToFirst()
			it.SeekToLast()
			reproCheckAt(t, "SeekToFirst;SeekToLast", it, entries[n-1])
			it.Seek(entries[n/2].key)
			reproCheckFrom(t, "SeekToLast;Seek(mid)", it, entries, n/2)
		})
	}
}
