package block

import (
	"bytes"
	"testing"
)

func TestReproB4(t *testing.T) {
	type ent struct {
		key  string
		val  []byte
		tomb bool
	}
	entries := []ent{
		{"a-empty", []byte{}, false},
		{"b-tomb", nil, true},
		{"c-value", []byte("v"), false},
		{"d-empty-sliced", []byte("xyz")[:0], false},
		{"e-tomb", nil, true},
		{"f-empty", make([]byte, 0), false},
	}
	b := NewBuilder()
	for i, e := range entries {
		if err := b.AddWithSequence([]byte(e.key), e.val, uint64(i+1)); err != nil {
			t.Fatalf("add: %v", err)
		}
	}
	// The builder must keep the nil / empty distinction and own its copies.
	for i, e := range b.GetEntries() {
		if (e.Value == nil) != entries[i].tomb {
			t.Errorf("builder entry %q: Value == nil is %v, want %v", e.Key, e.Value == nil, entries[i].tomb)
		}
	}
	var buf bytes.Buffer
	if _, err := b.Finish(&buf); err != nil {
		t.Fatalf("finish: %v", err)
	}
	r, err := NewReader(buf.Bytes())
	if err != nil {
		t.Fatalf("reader: %v", err)
	}
	it := r.Iterator()
	i := 0
	for it.SeekToFirst(); it.Valid(); it.Next() {
		if i >= len(entries) {
			t.Fatalf("too many entries: %q", it.Key())
		}
		e := entries[i]
		if string(it.Key()) != e.key || it.SequenceNumber() != uint64(i+1) {
			t.Errorf("entry %d: key %q seq %d, want %q seq %d", i, it.Key(), it.SequenceNumber(), e.key, i+1)
		}
		if it.IsTombstone() != e.tomb {
			t.Errorf("entry %q: IsTombstone = %v, want %v", e.key, it.IsTombstone(), e.tomb)
		}
		if (it.Value() == nil) != e.tomb {
			t.Errorf("entry %q: Value() == nil is %v, want %v", e.key, it.Value() == nil, e.tomb)
		}
		if !bytes.Equal(it.Value(), e.val) {
			t.Errorf("entry %q: value %q, want %q", e.key, it.Value(), e.val)
		}
		i++
	}
	if i != len(entries) {
		t.Errorf("read %d entries, want %d", i, len(entries))
	}

	// Seek must report the same thing.
	for _, e := range entries {
		it := r.Iterator()
		if !it.Seek([]byte(e.key)) || string(it.Key()) != e.key {
			t.Errorf("Seek(%q) landed on %q", e.key, it.Key())
			continue
		}
		if it.IsTombstone() != e.tomb || (it.Value() == nil) != e.tomb {
			t.Errorf("Seek(%q): tombstone %v, value nil %v; want %v", e.key, it.IsTombstone(), it.Value() == nil, e.tomb)
		}
	}

	// The builder must not alias the caller's value buffer.
	b2 := NewBuilder()
	v := []byte("hello")
	if err := b2.Add([]byte("k"), v); err != nil {
		t.Fatal(err)
	}
	v[0] = 'X'
	if got := b2.GetEntries()[0].Value; string(got) != "hello" {
		t.Errorf("builder aliases caller's value: %q", got)
	}
}
