package sstable

import (
	"bytes"
	"errors"
	"fmt"
	"path/filepath"
	"testing"
	"time"
)

type repro2Entry struct {
	key  []byte
	val  []byte
	seq  uint64
	tomb bool
}

// repro2Build writes n entries with keys key%05d (even numbers only).
func repro2Build(t *testing.T, n, valSize int, bloom bool) (*Reader, []repro2Entry) {
	t.Helper()
	path := filepath.Join(t.TempDir(), "t.sst")
	opts := DefaultWriterOptions()
	opts.EnableBloomFilter = bloom
	w, err := NewWriterWithOptions(path, opts)
	if err != nil {
		t.Fatalf("writer: %v", err)
	}
	entries := make([]repro2Entry, 0, n)
	for i := 0; i < n; i++ {
		e := repro2Entry{key: []byte(fmt.Sprintf("key%05d", 2*i)), seq: uint64(i + 1)}
		if i%7 == 5 {
			e.tomb = true
		} else {
			e.val = bytes.Repeat([]byte{byte('a' + i%26)}, valSize)
			copy(e.val, fmt.Sprintf("v%d-", i))
		}
		if err := w.AddWithSequence(e.key, e.val, e.seq); err != nil {
			t.Fatalf("add: %v", err)
		}
		entries = append(entries, e)
	}
	if err := w.Finish(); err != nil {
		t.Fatalf("finish: %v", err)
	}
	r, err := OpenReader(path)
	if err != nil {
		t.Fatalf("open: %v", err)
	}
	t.Cleanup(func() { r.Close() })
	return r, entries
}

func repro2NumBlocks(r *Reader) int {
	seen := map[uint64]bool{}
	it := r.indexBlock.Iterator()
	for it.SeekToFirst(); it.Valid(); it.Next() {
		loc, err := ParseBlockLocator(it.Key(), it.Value())
		if err == nil {
			seen[loc.Offset] = true
		}
	}
	return len(seen)
}

func repro2At(t *testing.T, what string, it *Iterator, e repro2Entry) bool {
	t.Helper()
	if !it.Valid() {
		t.Errorf("%s: invalid, want %q (err=%v)", what, e.key, it.Error())
		return false
	}
	ok := true
	if !bytes.Equal(it.Key(), e.key) {
		t.Errorf("%s: key = %q, want %q", what, it.Key(), e.key)
		ok = false
	}
	if it.SequenceNumber() != e.seq {
		t.Errorf("%s: seq = %d, want %d", what, it.SequenceNumber(), e.seq)
		ok = false
	}
	if it.IsTombstone() != e.tomb {
		t.Errorf("%s: tombstone = %v, want %v", what, it.IsTombstone(), e.tomb)
		ok = false
	}
	if !bytes.Equal(it.Value(), e.val) || (it.Value() == nil) != e.tomb {
		t.Errorf("%s: value mismatch (len %d, want %d)", what, len(it.Value()), len(e.val))
		ok = false
	}
	return ok
}

func repro2Invalid(t *testing.T, what string, it *Iterator) {
	t.Helper()
	if it.Valid() || it.Key() != nil || it.Value() != nil {
		t.Errorf("%s: valid at %q, want invalid", what, it.Key())
	}
}

func repro2From(t *testing.T, what string, it *Iterator, entries []repro2Entry, idx int) {
	t.Helper()
	for j := idx; j < len(entries); j++ {
		if !repro2At(t, fmt.Sprintf("%s +%d", what, j-idx), it, entries[j]) {
			return
		}
		more := it.Next()
		if more != (j+1 < len(entries)) {
			t.Errorf("%s +%d: Next() = %v, want %v", what, j-idx, more, j+1 < len(entries))
			return
		}
	}
	repro2Invalid(t, what+" end", it)
	if it.Next() {
		t.Errorf("%s: Next() past the end = true", what)
	}
	repro2Invalid(t, what+" end+1", it)
}

func TestReproB2(t *testing.T) {
	cases := []struct {
		name       string
		n, valSize int
		bloom      bool
		minBlocks  int
	}{
		{"1block", 20, 10, false, 1},
		{"1block-bloom", 20, 10, true, 1},
		{"5blocks", 300, 1024, false, 5},
		{"5blocks-bloom", 300, 1024, true, 5},
	}
	for _, c := range cases {
		c := c
		t.Run(c.name, func(t *testing.T) {
			r, entries := repro2Build(t, c.n, c.valSize, c.bloom)
			nb := repro2NumBlocks(r)
			t.Logf("%d entries in %d blocks", len(entries), nb)
			if nb < c.minBlocks || (c.minBlocks == 1 && nb != 1) {
				t.Fatalf("got %d blocks, want %d", nb, c.minBlocks)
			}
			last := len(entries) - 1

			// Full forward iteration.
			it := r.NewIterator()
			it.SeekToFirst()
			repro2From(t, "SeekToFirst", it, entries, 0)

			// Next() on a fresh iterator (guard against self-deadlock).
			done := make(chan bool, 1)
			fresh := r.NewIterator()
			go func() { done <- fresh.Next() }()
			select {
			case ok := <-done:
				if !ok {
					t.Errorf("fresh Next() = false")
				}
				repro2From(t, "fresh Next", fresh, entries, 0)
			case <-time.After(3 * time.Second):
				t.Errorf("fresh Next() deadlocked")
			}

			// Seek to every present key.
			reused := r.NewIterator()
			for i, e := range entries {
				it = r.NewIterator()
				if !it.Seek(e.key) {
					t.Errorf("Seek(%q) = false", e.key)
				}
				if i%5 == 0 || i == last {
					repro2From(t, fmt.Sprintf("Seek(%q)", e.key), it, entries, i)
				} else {
					repro2At(t, fmt.Sprintf("Seek(%q)", e.key), it, e)
					it.Next()
					repro2At(t, fmt.Sprintf("Seek(%q)+1", e.key), it, entries[i+1])
				}
				if !reused.Seek(e.key) {
					t.Errorf("reused Seek(%q) = false", e.key)
				}
				repro2At(t, fmt.Sprintf("reused Seek(%q)", e.key), reused, e)
			}
			// Reused iterator seeking backwards.
			for i := last; i >= 0; i -= 3 {
				reused.Seek(entries[i].key)
				repro2At(t, fmt.Sprintf("backwards Seek(%q)", entries[i].key), reused, entries[i])
			}

			// Seek between keys.
			for i := 0; i < last; i++ {
				target := []byte(fmt.Sprintf("key%05d", 2*i+1))
				it = r.NewIterator()
				if !it.Seek(target) {
					t.Errorf("Seek(%q) = false", target)
				}
				repro2At(t, fmt.Sprintf("Seek(%q)", target), it, entries[i+1])
				if i+2 <= last {
					it.Next()
					repro2At(t, fmt.Sprintf("Seek(%q)+1", target), it, entries[i+2])
				}
			}

			// Seek before the first key.
			for _, target := range [][]byte{[]byte("a"), []byte("key"), {}} {
				it = r.NewIterator()
				if !it.Seek(target) {
					t.Errorf("Seek(%q) = false", target)
				}
				repro2From(t, fmt.Sprintf("Seek(%q)", target), it, entries, 0)
			}

			// Seek after the last key.
			for _, target := range [][]byte{[]byte(fmt.Sprintf("key%05d", 2*last+1)), []byte("zzz")} {
				it = r.NewIterator()
				if it.Seek(target) {
					t.Errorf("Seek(%q) = true at %q", target, it.Key())
				}
				repro2Invalid(t, fmt.Sprintf("Seek(%q)", target), it)
				if it.Next() {
					t.Errorf("Seek(%q); Next() = true at %q", target, it.Key())
				}
				repro2Invalid(t, fmt.Sprintf("Seek(%q); Next", target), it)
				it.SeekToFirst()
				repro2At(t, "reuse after failed Seek", it, entries[0])
			}

			// SeekToLast.
			it = r.NewIterator()
			it.SeekToLast()
			repro2From(t, "SeekToLast", it, entries, last)
			it.SeekToFirst()
			it.SeekToLast()
			repro2At(t, "SeekToFirst;SeekToLast", it, entries[last])

			// Point lookups (bloom filters are a separate defect: only check
			// Get on tables without them here).
			if !c.bloom {
				for _, e := range entries {
					v, err := r.Get(e.key)
					if err != nil {
						t.Errorf("Get(%q): %v", e.key, err)
						continue
					}
					if !bytes.Equal(v, e.val) {
						t.Errorf("Get(%q): wrong value", e.key)
					}
				}
				for i := -1; i <= last; i++ {
					k := []byte(fmt.Sprintf("key%05d", 2*i+1))
					if i < 0 {
						k = []byte("a")
					}
					if v, err := r.Get(k); !errors.Is(err, ErrNotFound) {
						t.Errorf("Get(%q) = %d bytes, %v; want ErrNotFound", k, len(v), err)
					}
				}
			}

			// FindBlockForKey must start with the block that holds the key.
			for _, e := range entries {
				locs, err := r.FindBlockForKey(e.key)
				if err != nil || len(locs) == 0 {
					t.Errorf("FindBlockForKey(%q) = %v, %v", e.key, locs, err)
					continue
				}
				br, err := r.blockFetcher.FetchBlock(locs[0].Offset, locs[0].Size)
				if err != nil {
					t.Fatalf("fetch: %v", err)
				}
				if _, found := r.SearchBlockForKey(br, e.key); !found {
					t.Errorf("FindBlockForKey(%q)[0] (first key %q) does not hold the key", e.key, locs[0].Key)
				}
			}
		})
	}
}
