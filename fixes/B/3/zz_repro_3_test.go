package sstable

import (
	"bytes"
	"errors"
	"fmt"
	"path/filepath"
	"testing"
)

func TestReproB3(t *testing.T) {
	for _, n := range []int{20, 300} {
		n := n
		t.Run(fmt.Sprintf("n=%d", n), func(t *testing.T) {
			path := filepath.Join(t.TempDir(), "t.sst")
			w, err := NewWriter(path) // default options: bloom filters enabled
			if err != nil {
				t.Fatalf("writer: %v", err)
			}
			vals := make([][]byte, n)
			for i := 0; i < n; i++ {
				vals[i] = bytes.Repeat([]byte{byte('a' + i%26)}, 1024)
				copy(vals[i], fmt.Sprintf("v%d-", i))
				if err := w.AddWithSequence([]byte(fmt.Sprintf("key%05d", 2*i)), vals[i], uint64(i+1)); err != nil {
					t.Fatalf("add: %v", err)
				}
			}
			if err := w.Finish(); err != nil {
				t.Fatalf("finish: %v", err)
			}
			r, err := OpenReader(path)
			if err != nil {
				t.Fatalf("open: %v", err)
			}
			defer r.Close()
			if !r.hasBloomFilter {
				t.Fatalf("table has no bloom filters")
			}

			// Every data block must have exactly one filter, keyed by its own offset.
			var offsets []uint64
			it := r.indexBlock.Iterator()
			for it.SeekToFirst(); it.Valid(); it.Next() {
				loc, err := ParseBlockLocator(it.Key(), it.Value())
				if err != nil {
					t.Fatalf("locator: %v", err)
				}
				offsets = append(offsets, loc.Offset)
			}
			t.Logf("%d entries, %d blocks, %d filters", n, len(offsets), len(r.bloomFilters))
			if n == 300 && len(offsets) < 5 {
				t.Fatalf("expected a multi-block table, got %d blocks", len(offsets))
			}
			if len(r.bloomFilters) != len(offsets) {
				t.Errorf("%d filters for %d blocks", len(r.bloomFilters), len(offsets))
			}
			for i := range offsets {
				if i < len(r.bloomFilters) && r.bloomFilters[i].blockOffset != offsets[i] {
					t.Errorf("filter %d recorded under offset %d, block %d is at offset %d",
						i, r.bloomFilters[i].blockOffset, i, offsets[i])
				}
			}

			missing := 0
			for i := 0; i < n; i++ {
				k := []byte(fmt.Sprintf("key%05d", 2*i))
				v, err := r.Get(k)
				if err != nil {
					missing++
					if missing <= 10 {
						t.Errorf("Get(%q): %v", k, err)
					}
					continue
				}
				if !bytes.Equal(v, vals[i]) {
					t.Errorf("Get(%q): wrong value", k)
				}
			}
			if missing > 0 {
				t.Errorf("%d of %d written keys not found", missing, n)
			}
			for i := -1; i < n; i++ {
				k := []byte(fmt.Sprintf("key%05d", 2*i+1))
				if i < 0 {
					k = []byte("a")
				}
				if v, err := r.Get(k); !errors.Is(err, ErrNotFound) {
					t.Errorf("Get(%q) = %d bytes, %v; want ErrNotFound", k, len(v), err)
				}
			}
		})
	}
}
