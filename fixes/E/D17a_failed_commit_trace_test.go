// Repro of D17a (repaired by 685afc8): copy into /repo/pkg/engine/ and run `go test -run TestD17aFailedCommitLeavesNoTrace ./pkg/engine/`.
// Before the repair the key "a" of the failed transaction is readable after the restart.
package engine

import (
	"testing"
)

func TestD17aFailedCommitLeavesNoTrace(t *testing.T) {
	dir := t.TempDir()
	e, err := NewEngineFacade(dir)
	if err != nil {
		t.Fatal(err)
	}
	tx, err := e.BeginTransaction(false)
	if err != nil {
		t.Fatal(err)
	}
	tx.Put([]byte("a"), []byte("small"))
	tx.Put([]byte("b"), make([]byte, 40000))
	if err := tx.Commit(); err == nil {
		t.Fatal("commit of an oversized entry succeeded")
	}
	if err := e.Put([]byte("c"), []byte("x")); err != nil {
		t.Fatal(err)
	}
	e.Close()
	e, err = NewEngineFacade(dir)
	if err != nil {
		t.Fatal(err)
	}
	defer e.Close()
	if _, err := e.Get([]byte("a")); err == nil {
		t.Fatal("key of the failed transaction is present after the restart")
	}
}
