package transaction

import (
	"context"
	"testing"
	"time"
)

// E3: a registry.Begin that times out while waiting for the write lock must
// not leave a late transaction behind that keeps the write lock forever.
func TestReproE3BeginTimeoutDoesNotLeakWriteLock(t *testing.T) {
	registry := NewRegistry()
	defer registry.GracefulShutdown(context.Background())

	for i := 0; i < 20; i++ {
		storage := NewMemoryStorage()
		manager := NewManager(storage, &StatsCollectorMock{})

		// T1 holds the single write lock.
		t1, err := manager.BeginTransaction(false)
		if err != nil {
			t.Fatalf("iter %d: begin T1: %v", i, err)
		}

		// A second writer cannot start and must time out.
		ctx, cancel := context.WithTimeout(context.Background(), 50*time.Millisecond)
		id, err := registry.Begin(ctx, manager, false)
		cancel()
		if err == nil {
			t.Fatalf("iter %d: expected Begin to time out while T1 holds the lock, got %s", i, id)
		}

		// Release the lock. The late transaction of the timed-out Begin now
		// obtains it; it must be rolled back by the registry.
		if err := t1.Rollback(); err != nil {
			t.Fatalf("iter %d: rollback T1: %v", i, err)
		}

		// A fresh writer must be able to begin promptly.
		ctx2, cancel2 := context.WithTimeout(context.Background(), time.Second)
		id2, err := registry.Begin(ctx2, manager, false)
		cancel2()
		if err != nil {
			t.Fatalf("iter %d: write lock leaked by timed-out Begin: fresh RW Begin failed: %v", i, err)
		}
		tx2, ok := registry.Get(id2)
		if !ok {
			t.Fatalf("iter %d: fresh transaction %s not registered", i, id2)
		}
		if err := tx2.Rollback(); err != nil {
			t.Fatalf("iter %d: rollback fresh tx: %v", i, err)
		}
		registry.Remove(id2)

		// Every started transaction must have finished: T1, the late one and
		// the fresh one.
		deadline := time.Now().Add(time.Second)
		for {
			st := manager.GetTransactionStats()
			if st["tx_active"].(uint64) == 0 {
				break
			}
			if time.Now().After(deadline) {
				t.Fatalf("iter %d: transactions left unfinished: %v", i, st)
			}
			time.Sleep(time.Millisecond)
		}
	}
}
