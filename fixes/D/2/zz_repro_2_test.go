package compaction

import (
	"fmt"
	"sync"
	"testing"
	"time"
)

// E2: TombstoneTracker must be safe for concurrent use (engine Delete callers
// write, the compaction worker reads / collects garbage).
// Run with: go test -race -run TestReproE2 ./pkg/compaction/
// Without -race the unmodified code usually dies with
// "fatal error: concurrent map writes".
func TestReproE2TombstoneTrackerConcurrent(t *testing.T) {
	tracker := NewTombstoneTracker(time.Nanosecond)

	const writers = 8
	const perWriter = 5000

	var wg sync.WaitGroup
	for w := 0; w < writers; w++ {
		wg.Add(1)
		go func(w int) {
			defer wg.Done()
			for i := 0; i < perWriter; i++ {
				key := []byte(fmt.Sprintf("k-%d-%d", w, i%64))
				tracker.AddTombstone(key)
				if i%16 == 0 {
					tracker.ForcePreserveTombstone(key)
				}
			}
		}(w)
	}

	// Compaction-worker side.
	for r := 0; r < 4; r++ {
		wg.Add(1)
		go func(r int) {
			defer wg.Done()
			for i := 0; i < perWriter; i++ {
				key := []byte(fmt.Sprintf("k-%d-%d", r, i%64))
				_ = tracker.ShouldKeepTombstone(key)
				if i%8 == 0 {
					tracker.CollectGarbage()
				}
			}
		}(r)
	}

	wg.Wait()
}
