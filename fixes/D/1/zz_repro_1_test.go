package transaction

import (
	"bytes"
	"testing"
)

// E1: Buffer.Put/Delete must capture key and value at call time.
func TestReproE1BufferCapturesCallerSlices(t *testing.T) {
	b := NewBuffer()

	k := []byte("key1")
	v := []byte("val1")
	b.Put(k, v)

	// Caller reuses its buffers.
	copy(k, "KEYX")
	copy(v, "VALX")

	got, found := b.Get([]byte("key1"))
	if !found {
		t.Fatalf("key1 not found in buffer")
	}
	if !bytes.Equal(got, []byte("val1")) {
		t.Errorf("value changed after caller reused its slice: got %q want %q", got, "val1")
	}
	ops := b.Operations()
	if len(ops) != 1 {
		t.Fatalf("expected 1 op, got %d", len(ops))
	}
	if !bytes.Equal(ops[0].Key, []byte("key1")) {
		t.Errorf("op key changed after caller reused its slice: got %q want %q", ops[0].Key, "key1")
	}
	if !bytes.Equal(ops[0].Value, []byte("val1")) {
		t.Errorf("op value changed after caller reused its slice: got %q want %q", ops[0].Value, "val1")
	}

	// Delete path.
	d := []byte("del1")
	b.Delete(d)
	copy(d, "DELX")
	var sawDel bool
	for _, op := range b.Operations() {
		if op.IsDelete {
			sawDel = true
			if !bytes.Equal(op.Key, []byte("del1")) {
				t.Errorf("delete key changed after caller reused its slice: got %q want %q", op.Key, "del1")
			}
			if op.Value != nil {
				t.Errorf("delete op must keep a nil value, got %q", op.Value)
			}
		}
	}
	if !sawDel {
		t.Fatalf("delete op missing")
	}

	// Empty (non-nil) value must stay non-nil and empty; it is not a deletion.
	b.Put([]byte("empty"), []byte{})
	ev, found := b.Get([]byte("empty"))
	if !found || ev == nil || len(ev) != 0 {
		t.Errorf("empty value must stay non-nil empty: found=%v val=%#v", found, ev)
	}
}

// E1 end to end: a committed transaction must contain what was passed to Put.
func TestReproE1CommitUsesValuesAtCallTime(t *testing.T) {
	storage := NewMemoryStorage()
	manager := NewManager(storage, &StatsCollectorMock{})

	tx, err := manager.BeginTransaction(false)
	if err != nil {
		t.Fatal(err)
	}
	k := []byte("a")
	v := []byte("1")
	for i := 0; i < 3; i++ {
		k[0] = byte('a' + i)
		v[0] = byte('1' + i)
		if err := tx.Put(k, v); err != nil {
			t.Fatal(err)
		}
	}
	if err := tx.Commit(); err != nil {
		t.Fatal(err)
	}
	for i := 0; i < 3; i++ {
		got, err := storage.Get([]byte{byte('a' + i)})
		if err != nil {
			t.Errorf("key %c: %v", 'a'+i, err)
			continue
		}
		if want := []byte{byte('1' + i)}; !bytes.Equal(got, want) {
			t.Errorf("key %c: got %q want %q", 'a'+i, got, want)
		}
	}
}
