package service

import (
	"context"
	"errors"
	"testing"
	"time"

	"github.com/KevoDB/kevo/pkg/common/iterator"
	"github.com/KevoDB/kevo/pkg/transaction"
	"github.com/KevoDB/kevo/pkg/wal"
	pb "github.com/KevoDB/kevo/proto/kevo"
)

// reproStorage is a minimal transaction.StorageBackend.
type reproStorage struct{ data map[string][]byte }

func (s *reproStorage) Get(key []byte) ([]byte, error) {
	if v, ok := s.data[string(key)]; ok {
		return v, nil
	}
	return nil, transaction.ErrKeyNotFound
}

func (s *reproStorage) ApplyBatch(entries []*wal.Entry) error {
	for _, e := range entries {
		if e.Type == wal.OpTypeDelete {
			delete(s.data, string(e.Key))
		} else {
			s.data[string(e.Key)] = e.Value
		}
	}
	return nil
}

func (s *reproStorage) GetIterator() (iterator.Iterator, error) {
	return nil, errors.New("not implemented")
}

func (s *reproStorage) GetRangeIterator(startKey, endKey []byte) (iterator.Iterator, error) {
	return nil, errors.New("not implemented")
}

// E4: a TxGet rejected for an invalid key size must have no side effect: the
// transaction stays registered and usable, and in no case may the handle be
// dropped while the transaction still holds the database write lock.
func TestReproE4TxGetInvalidKeyHasNoSideEffect(t *testing.T) {
	storage := &reproStorage{data: map[string][]byte{}}
	manager := transaction.NewManager(storage, nil)
	registry := transaction.NewRegistry()
	defer registry.GracefulShutdown(context.Background())

	srv := NewKevoServiceServer(nil, registry, nil)
	ctx := context.Background()

	for name, badKey := range map[string][]byte{
		"empty":    {},
		"too long": make([]byte, srv.maxKeySize+1),
	} {
		txID, err := registry.Begin(ctx, manager, false)
		if err != nil {
			t.Fatalf("%s: begin: %v", name, err)
		}

		if _, err := srv.TxPut(ctx, &pb.TxPutRequest{TransactionId: txID, Key: []byte("k"), Value: []byte("v")}); err != nil {
			t.Fatalf("%s: TxPut: %v", name, err)
		}

		// Rejected request.
		if _, err := srv.TxGet(ctx, &pb.TxGetRequest{TransactionId: txID, Key: badKey}); err == nil {
			t.Fatalf("%s: expected TxGet with invalid key size to be rejected", name)
		}

		// The transaction must still be registered and usable ...
		if _, ok := registry.Get(txID); !ok {
			t.Errorf("%s: rejected TxGet dropped the transaction handle %s", name, txID)
		}
		resp, err := srv.TxGet(ctx, &pb.TxGetRequest{TransactionId: txID, Key: []byte("k")})
		if err != nil {
			t.Errorf("%s: TxGet after rejected request: %v", name, err)
		} else if !resp.Found || string(resp.Value) != "v" {
			t.Errorf("%s: TxGet after rejected request: found=%v value=%q", name, resp.Found, resp.Value)
		}
		if _, err := srv.CommitTransaction(ctx, &pb.CommitTransactionRequest{TransactionId: txID}); err != nil {
			t.Errorf("%s: commit after rejected TxGet: %v", name, err)
		}

		// ... and whatever happened, the write lock must not be leaked: a new
		// writer must be able to begin.
		ctx2, cancel := context.WithTimeout(ctx, time.Second)
		txID2, err := registry.Begin(ctx2, manager, false)
		cancel()
		if err != nil {
			t.Fatalf("%s: write lock leaked after rejected TxGet: %v", name, err)
		}
		if _, err := srv.RollbackTransaction(ctx, &pb.RollbackTransactionRequest{TransactionId: txID2}); err != nil {
			t.Fatalf("%s: rollback: %v", name, err)
		}
		if got := string(storage.data["k"]); got != "v" {
			t.Errorf("%s: committed value = %q, want %q", name, got, "v")
		}
		delete(storage.data, "k")
	}
}
