package config

import (
	"errors"
	"math"
	"testing"
)

// E5: Validate must reject NaN / Inf compaction ratios; a configuration that
// passes validation must be storable by SaveManifest.
func TestReproE5ValidateRejectsNonFiniteCompactionRatio(t *testing.T) {
	for name, ratio := range map[string]float64{
		"NaN":  math.NaN(),
		"+Inf": math.Inf(1),
		"-Inf": math.Inf(-1),
	} {
		cfg := NewDefaultConfig(t.TempDir())
		cfg.CompactionRatio = ratio

		err := cfg.Validate()
		if err == nil {
			t.Errorf("%s: Validate accepted CompactionRatio=%v", name, ratio)
		} else if !errors.Is(err, ErrInvalidConfig) {
			t.Errorf("%s: Validate error %v is not ErrInvalidConfig", name, err)
		}

		// Whatever Validate accepts must be storable.
		saveErr := cfg.SaveManifest(t.TempDir())
		if err == nil && saveErr != nil {
			t.Errorf("%s: config passed Validate but SaveManifest failed: %v", name, saveErr)
		}
		if saveErr != nil && !errors.Is(saveErr, ErrInvalidConfig) {
			t.Errorf("%s: SaveManifest error %v is not ErrInvalidConfig", name, saveErr)
		}
	}

	// Sanity: ordinary finite ratios keep working.
	cfg := NewDefaultConfig(t.TempDir())
	cfg.CompactionRatio = 1.5
	if err := cfg.Validate(); err != nil {
		t.Errorf("finite ratio 1.5 rejected: %v", err)
	}
	if err := cfg.SaveManifest(t.TempDir()); err != nil {
		t.Errorf("finite ratio 1.5 not storable: %v", err)
	}
}
