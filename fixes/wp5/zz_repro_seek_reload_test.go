package memtable_test

import (
	"bytes"
	"encoding/binary"
	"sync"
	"sync/atomic"
	"testing"

	"github.com/KevoDB/kevo/pkg/memtable"
)

// Seek(target) on an iterator of a mutable memtable, concurrently with Put of keys BELOW the target,
// must never be positioned on a key < target.
func TestSeekBelowTarget(t *testing.T) {
	bad := int64(0)
	var firstBad atomic.Value
	for round := 0; round < 20 && atomic.LoadInt64(&bad) == 0; round++ {
		mt := memtable.NewMemTable()
		target := []byte("m")
		mt.Put([]byte("zzz"), []byte("v"), 1)
		var wg sync.WaitGroup
		stop := int32(0)
		wg.Add(1)
		go func() {
			defer wg.Done()
			for i := 0; i < 200000; i++ {
				k := make([]byte, 9)
				k[0] = 'a'
				binary.BigEndian.PutUint64(k[1:], uint64(i)) // increasing, all < "m"
				mt.Put(k, []byte("x"), uint64(i+2))
			}
			atomic.StoreInt32(&stop, 1)
		}()
		for r := 0; r < 4; r++ {
			wg.Add(1)
			go func() {
				defer wg.Done()
				for atomic.LoadInt32(&stop) == 0 {
					it := mt.NewIterator()
					it.Seek(target)
					if it.Valid() {
						if k := it.Key(); bytes.Compare(k, target) < 0 {
							atomic.AddInt64(&bad, 1)
							firstBad.CompareAndSwap(nil, append([]byte{}, k...))
						}
					}
				}
			}()
		}
		wg.Wait()
	}
	if bad > 0 {
		t.Fatalf("Seek(%q) landed %d times on a key below the target, e.g. %x", "m", bad, firstBad.Load())
	}
}
