# M6: pool Get searches the immutable tables oldest first (stale reads)
p='pkg/memtable/mempool.go'
s=open(p).read()
old='''	for i := len(p.immutables) - 1; i >= 0; i-- {
		if value, found := p.immutables[i].Get(key); found {'''
assert old in s
s=s.replace(old,'''	for i := 0; i < len(p.immutables); i++ {
		if value, found := p.immutables[i].Get(key); found {''')
open(p,'w').write(s)
