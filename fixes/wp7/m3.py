# M3: TombstoneTracker without its mutex
import re
p='pkg/compaction/tombstone.go'
s=open(p).read()
n0=len(s)
s=re.sub(r'\n\tt\.mu\.(R?Lock)\(\)\n\tdefer t\.mu\.(R?Unlock)\(\)\n','\n',s)
assert len(s)<n0 and 't.mu.' not in s
open(p,'w').write(s)
