# M1: Manager.Get does not take mu.RLock
p='pkg/engine/storage/manager.go'
s=open(p).read()
old='''func (m *Manager) Get(key []byte) ([]byte, error) {
	m.mu.RLock()
	defer m.mu.RUnlock()
'''
assert old in s
s=s.replace(old,'''func (m *Manager) Get(key []byte) ([]byte, error) {
''')
open(p,'w').write(s)
