# M7 (seeded by the coordinator): rotateWAL reads the old log's next sequence BEFORE SetRotating
p='pkg/engine/storage/manager.go'
s=open(p).read()
old='''	currentWAL := m.getWAL()
	if currentWAL != nil {
		currentWAL.SetRotating()
	}
'''
assert old in s
s=s.replace(old,'''	currentWAL := m.getWAL()
	var nextSeq uint64
	if currentWAL != nil {
		nextSeq = currentWAL.GetNextSequence()
		currentWAL.SetRotating()
	}
''')
old2='''		newWAL.UpdateNextSequence(currentWAL.GetNextSequence())'''
assert old2 in s
s=s.replace(old2,'''		newWAL.UpdateNextSequence(nextSeq)''')
open(p,'w').write(s)
