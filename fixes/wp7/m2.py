# M2: Put inserts into the memtable after releasing mu (defer removed, explicit Unlock after the log append)
p='pkg/engine/storage/manager.go'
s=open(p).read()
i=s.index('func (m *Manager) Put(key, value []byte) error {')
j=s.index('// Get retrieves the value for the given key')
new='''func (m *Manager) Put(key, value []byte) error {
	m.mu.Lock()

	if m.closed.Load() {
		m.mu.Unlock()
		return ErrStorageClosed
	}

	var seqNum uint64
	operation := func() error {
		currentWAL := m.getWAL()
		if currentWAL == nil {
			return ErrStorageClosed
		}
		var err error
		seqNum, err = currentWAL.Append(wal.OpTypePut, key, value)
		if err != nil {
			if err != wal.ErrWALRotating {
				m.stats.TrackError("wal_append_error")
				return fmt.Errorf("failed to append to WAL: %w", err)
			}
			return err
		}
		return nil
	}
	err := m.RetryOnWALRotating(operation)
	m.mu.Unlock()
	if err != nil {
		return err
	}

	verifhook.At("mgr.put.afterLog")
	// Add to MemTable (outside the lock)
	m.memTablePool.Put(key, value, seqNum)
	m.lastSeqNum = seqNum
	verifhook.At("mgr.put.afterMem")

	if m.memTablePool.IsFlushNeeded() {
		m.mu.Lock()
		flushErr := m.scheduleFlush()
		m.mu.Unlock()
		if flushErr != nil {
			return fmt.Errorf("failed to schedule flush: %w", flushErr)
		}
	}
	return nil
}

'''
s=s[:i]+new+s[j:]
open(p,'w').write(s)
