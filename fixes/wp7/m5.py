# M5: RetryOnWALRotating swallows the error after the retries
p='pkg/engine/storage/manager.go'
s=open(p).read()
old='''	return fmt.Errorf("operation failed after %d retries: %w", maxRetries, wal.ErrWALRotating)
}'''
assert old in s
s=s.replace(old,'''	return nil
}''')
open(p,'w').write(s)
