# M4: BlockCache.Get reads the map without the lock
p='pkg/sstable/reader.go'
s=open(p).read()
old='''func (c *BlockCache) Get(offset uint64) (*block.Reader, bool) {
	c.mu.RLock()
	defer c.mu.RUnlock()
'''
assert old in s
s=s.replace(old,'''func (c *BlockCache) Get(offset uint64) (*block.Reader, bool) {
''')
open(p,'w').write(s)
