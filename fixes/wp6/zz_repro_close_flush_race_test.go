package storage

// Reproduction (copy into pkg/engine/storage, run: go test -race -run TestZZCloseRacesWithBackgroundFlush -count=3 ./pkg/engine/storage):
// Manager.Close reads m.sstables without m.mu and does not wait for the background flush goroutine, which
// appends to m.sstables under m.mu in flushMemTable. -race reports a DATA RACE (manager.go Close vs flushMemTable);
// the table published after Close is never closed.

import (
	"fmt"
	"testing"

	"github.com/KevoDB/kevo/pkg/config"
	"github.com/KevoDB/kevo/pkg/stats"
)

func TestZZCloseRacesWithBackgroundFlush(t *testing.T) {
	for round := 0; round < 20; round++ {
		dir := t.TempDir()
		cfg := config.NewDefaultConfig(dir)
		cfg.MemTableSize = 512
		cfg.WALSyncMode = config.SyncNone
		m, err := NewManager(cfg, stats.NewAtomicCollector())
		if err != nil {
			t.Fatal(err)
		}
		for i := 0; i < 40; i++ {
			if err := m.Put([]byte(fmt.Sprintf("key-%04d", i)), make([]byte, 100)); err != nil {
				t.Fatal(err)
			}
		}
		m.Close()
	}
}
