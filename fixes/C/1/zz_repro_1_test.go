package storage

import (
	"bytes"
	"fmt"
	"path/filepath"
	"testing"

	"github.com/KevoDB/kevo/pkg/config"
	"github.com/KevoDB/kevo/pkg/stats"
)

// C1: a scan must yield the newest version of a key held in several
// immutable memtables, i.e. the same value Get returns.
func TestReproC1ScanSeesNewestImmutableVersion(t *testing.T) {
	tempDir := t.TempDir()
	cfg := &config.Config{
		Version:         config.CurrentManifestVersion,
		SSTDir:          filepath.Join(tempDir, "sst"),
		WALDir:          filepath.Join(tempDir, "wal"),
		MemTableSize:    200,
		MemTablePoolCap: 8,
		MaxMemTables:    8,
	}
	m, err := NewManager(cfg, stats.NewAtomicCollector())
	if err != nil {
		t.Fatalf("NewManager: %v", err)
	}
	defer m.Close()

	key := []byte("k")
	var last []byte
	for i := 1; i <= 8; i++ {
		val := bytes.Repeat([]byte{'.'}, 100)
		copy(val, fmt.Sprintf("v%d", i))
		if err := m.Put(key, val); err != nil {
			t.Fatalf("Put %d: %v", i, err)
		}
		last = val
	}

	if n := m.memTablePool.ImmutableCount(); n < 2 {
		t.Fatalf("test setup: expected >= 2 immutable memtables, got %d", n)
	}

	got, err := m.Get(key)
	if err != nil {
		t.Fatalf("Get: %v", err)
	}
	if !bytes.Equal(got, last) {
		t.Fatalf("Get returned %q, want %q", got[:2], last[:2])
	}

	check := func(name string, seekFirst func() (k, v []byte, ok bool)) {
		k, v, ok := seekFirst()
		if !ok {
			t.Errorf("%s: iterator yielded nothing", name)
			return
		}
		if !bytes.Equal(k, key) {
			t.Errorf("%s: iterator key %q, want %q", name, k, key)
			return
		}
		if !bytes.Equal(v, got) {
			t.Errorf("%s: scan value %q differs from Get value %q", name, v[:2], got[:2])
		}
	}

	it, err := m.GetIterator()
	if err != nil {
		t.Fatalf("GetIterator: %v", err)
	}
	check("GetIterator/SeekToFirst", func() ([]byte, []byte, bool) {
		it.SeekToFirst()
		return it.Key(), it.Value(), it.Valid()
	})
	check("GetIterator/Seek", func() ([]byte, []byte, bool) {
		ok := it.Seek(key)
		return it.Key(), it.Value(), ok && it.Valid()
	})

	rit, err := m.GetRangeIterator([]byte("a"), []byte("z"))
	if err != nil {
		t.Fatalf("GetRangeIterator: %v", err)
	}
	check("GetRangeIterator/SeekToFirst", func() ([]byte, []byte, bool) {
		rit.SeekToFirst()
		return rit.Key(), rit.Value(), rit.Valid()
	})
}
