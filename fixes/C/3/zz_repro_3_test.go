package storage

import (
	"bytes"
	"fmt"
	"os"
	"path/filepath"
	"strings"
	"testing"

	"github.com/KevoDB/kevo/pkg/config"
	"github.com/KevoDB/kevo/pkg/sstable"
	"github.com/KevoDB/kevo/pkg/stats"
)

func reproC3Config(dir string) *config.Config {
	return &config.Config{
		Version:         config.CurrentManifestVersion,
		SSTDir:          filepath.Join(dir, "sst"),
		WALDir:          filepath.Join(dir, "wal"),
		MemTableSize:    1024 * 1024,
		MemTablePoolCap: 2,
		MaxMemTables:    2,
	}
}

func reproC3Open(t *testing.T, cfg *config.Config) *Manager {
	t.Helper()
	m, err := NewManager(cfg, stats.NewAtomicCollector())
	if err != nil {
		t.Fatalf("NewManager: %v", err)
	}
	return m
}

// reproC3CloseAndDropWAL closes the manager and removes the WAL files, whose
// content has been flushed to SSTables, so that reads after reopening are
// served from the SSTables only.
func reproC3CloseAndDropWAL(t *testing.T, m *Manager, cfg *config.Config) {
	t.Helper()
	if err := m.Close(); err != nil {
		t.Fatalf("Close: %v", err)
	}
	if err := os.RemoveAll(cfg.WALDir); err != nil {
		t.Fatalf("remove WAL dir: %v", err)
	}
}

func reproC3PutFlush(t *testing.T, m *Manager, kvs ...string) {
	t.Helper()
	for i := 0; i+1 < len(kvs); i += 2 {
		if err := m.Put([]byte(kvs[i]), []byte(kvs[i+1])); err != nil {
			t.Fatalf("Put(%s): %v", kvs[i], err)
		}
	}
	if err := m.FlushMemTables(); err != nil {
		t.Fatalf("FlushMemTables: %v", err)
	}
}

func reproC3SSTNames(t *testing.T, cfg *config.Config) []string {
	t.Helper()
	entries, err := os.ReadDir(cfg.SSTDir)
	if err != nil {
		t.Fatalf("ReadDir: %v", err)
	}
	var names []string
	for _, e := range entries {
		names = append(names, e.Name())
	}
	return names
}

func reproC3ScanValue(t *testing.T, m *Manager, key string) string {
	t.Helper()
	it, err := m.GetIterator()
	if err != nil {
		t.Fatalf("GetIterator: %v", err)
	}
	for it.SeekToFirst(); it.Valid(); it.Next() {
		if string(it.Key()) == key {
			return string(it.Value())
		}
	}
	return "<absent>"
}

// C3 (b): a level-0 file written after a restart must be treated as newer than
// the level-0 files of the previous run.
func TestReproC3NewestWriteWinsAcrossRestart(t *testing.T) {
	dir := t.TempDir()
	cfg := reproC3Config(dir)

	// Run 1: two flushes -> 0_000001_<t1>, 0_000002_<t2>; both hold k.
	m := reproC3Open(t, cfg)
	reproC3PutFlush(t, m, "k", "v1")
	reproC3PutFlush(t, m, "x", "other", "k", "v1b")
	reproC3CloseAndDropWAL(t, m, cfg)
	t.Logf("after run 1: %v", reproC3SSTNames(t, cfg))

	// Run 2: newest write of k, flushed.
	m = reproC3Open(t, cfg)
	reproC3PutFlush(t, m, "k", "v2")
	reproC3CloseAndDropWAL(t, m, cfg)
	t.Logf("after run 2: %v", reproC3SSTNames(t, cfg))

	// Run 3: read back.
	m = reproC3Open(t, cfg)
	defer m.Close()
	got, err := m.Get([]byte("k"))
	if err != nil {
		t.Fatalf("Get(k): %v", err)
	}
	if !bytes.Equal(got, []byte("v2")) {
		t.Errorf("Get(k) after restart = %q, want newest write %q", got, "v2")
	}
	if v := reproC3ScanValue(t, m, "k"); v != "v2" {
		t.Errorf("scan value of k after restart = %q, want newest write %q", v, "v2")
	}
	if got, err := m.Get([]byte("x")); err != nil || string(got) != "other" {
		t.Errorf("Get(x) = %q, %v; want \"other\"", got, err)
	}
}

// C3 (b, file numbering): the flush file number continues after the highest
// sequence found on disk instead of restarting at 1.
func TestReproC3FileNumberContinuesAfterRestart(t *testing.T) {
	dir := t.TempDir()
	cfg := reproC3Config(dir)

	m := reproC3Open(t, cfg)
	reproC3PutFlush(t, m, "a", "1")
	reproC3PutFlush(t, m, "b", "2")
	reproC3CloseAndDropWAL(t, m, cfg)

	m = reproC3Open(t, cfg)
	reproC3PutFlush(t, m, "c", "3")
	reproC3CloseAndDropWAL(t, m, cfg)

	names := reproC3SSTNames(t, cfg)
	if len(names) != 3 {
		t.Fatalf("expected 3 sstables, got %v", names)
	}
	seen := map[string]int{}
	for _, n := range names {
		parts := strings.Split(n, "_")
		seen[parts[1]]++
	}
	for _, want := range []string{"000001", "000002", "000003"} {
		if seen[want] != 1 {
			t.Errorf("expected exactly one file with sequence %s, have %v", want, names)
		}
	}
}

func reproC3WriteSST(t *testing.T, cfg *config.Config, level int, seq uint64, ts int64, kvs ...string) {
	t.Helper()
	if err := os.MkdirAll(cfg.SSTDir, 0755); err != nil {
		t.Fatal(err)
	}
	path := filepath.Join(cfg.SSTDir, fmt.Sprintf(sstableFilenameFormat, level, seq, ts))
	w, err := sstable.NewWriter(path)
	if err != nil {
		t.Fatalf("NewWriter: %v", err)
	}
	for i := 0; i+1 < len(kvs); i += 2 {
		if err := w.Add([]byte(kvs[i]), []byte(kvs[i+1])); err != nil {
			t.Fatalf("Add: %v", err)
		}
	}
	if err := w.Finish(); err != nil {
		t.Fatalf("Finish: %v", err)
	}
}

// C3 (a): a level-1 file (compaction output, older data, later timestamp) must
// not shadow the level-0 files.
func TestReproC3Level0NewerThanLevel1(t *testing.T) {
	dir := t.TempDir()
	cfg := reproC3Config(dir)

	const ts = int64(1700000000000000000)
	// L0 file flushed at ts+1 holding the newest k, an L0 file flushed earlier,
	// and an L1 file produced by a later compaction (ts+5) of older data.
	reproC3WriteSST(t, cfg, 0, 7, ts+1, "k", "newest", "l0", "y")
	reproC3WriteSST(t, cfg, 0, 6, ts, "k", "older-l0")
	reproC3WriteSST(t, cfg, 1, 1, ts+5, "k", "compacted-old", "l1", "z")
	// a stray file that does not follow the naming scheme is ignored
	if err := os.WriteFile(filepath.Join(cfg.SSTDir, "notes.txt"), []byte("x"), 0644); err != nil {
		t.Fatal(err)
	}

	m := reproC3Open(t, cfg)
	defer m.Close()

	got, err := m.Get([]byte("k"))
	if err != nil {
		t.Fatalf("Get(k): %v", err)
	}
	if string(got) != "newest" {
		t.Errorf("Get(k) = %q, want %q (level 0 is newer than level 1)", got, "newest")
	}
	if v := reproC3ScanValue(t, m, "k"); v != "newest" {
		t.Errorf("scan value of k = %q, want %q", v, "newest")
	}
	for k, want := range map[string]string{"l0": "y", "l1": "z"} {
		if got, err := m.Get([]byte(k)); err != nil || string(got) != want {
			t.Errorf("Get(%s) = %q, %v; want %q", k, got, err, want)
		}
	}

	// the loaded order is oldest first: L1, then L0 by timestamp
	var order []string
	for _, p := range m.GetSSTables() {
		order = append(order, filepath.Base(p)[:8])
	}
	if want := "1_000001 0_000006 0_000007"; strings.Join(order, " ") != want {
		t.Errorf("load order = %v, want %s", order, want)
	}
}

// C3 (b, legacy layout): files left behind by a version that restarted the
// file number at 1 are ordered by timestamp, not by name.
func TestReproC3LegacyRestartedSequenceOrderedByTimestamp(t *testing.T) {
	dir := t.TempDir()
	cfg := reproC3Config(dir)

	const ts = int64(1700000000000000000)
	reproC3WriteSST(t, cfg, 0, 1, ts, "k", "v1")
	reproC3WriteSST(t, cfg, 0, 2, ts+1, "k", "v1b")
	reproC3WriteSST(t, cfg, 0, 1, ts+2, "k", "v2") // written after a restart

	m := reproC3Open(t, cfg)
	defer m.Close()
	got, err := m.Get([]byte("k"))
	if err != nil {
		t.Fatalf("Get(k): %v", err)
	}
	if string(got) != "v2" {
		t.Errorf("Get(k) = %q, want %q", got, "v2")
	}
	if v := reproC3ScanValue(t, m, "k"); v != "v2" {
		t.Errorf("scan value of k = %q, want %q", v, "v2")
	}
}
