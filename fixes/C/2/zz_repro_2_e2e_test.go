package engine

import (
	"fmt"
	"os"
	"path/filepath"
	"testing"
)

// C2 (+C3) end to end: after level-0 files holding several versions of a key
// are compacted and the database is reopened without WAL, the newest version
// must be read.
func TestReproC2EndToEndCompactionKeepsNewest(t *testing.T) {
	dir := t.TempDir()
	e, err := NewEngineFacade(dir)
	if err != nil {
		t.Fatalf("NewEngineFacade: %v", err)
	}
	n := e.cfg.MaxMemTables // number of L0 files that triggers an L0 compaction
	if n < 2 {
		n = 2
	}
	var last string
	for i := 1; i <= n; i++ {
		last = fmt.Sprintf("v%d", i)
		if err := e.Put([]byte("k"), []byte(last)); err != nil {
			t.Fatalf("Put: %v", err)
		}
		if err := e.Put([]byte(fmt.Sprintf("other%d", i)), []byte("x")); err != nil {
			t.Fatalf("Put: %v", err)
		}
		if err := e.FlushImMemTables(); err != nil {
			t.Fatalf("Flush: %v", err)
		}
	}
	if err := e.TriggerCompaction(); err != nil {
		t.Fatalf("TriggerCompaction: %v", err)
	}
	names := func() []string {
		es, _ := os.ReadDir(e.cfg.SSTDir)
		var out []string
		for _, x := range es {
			out = append(out, x.Name())
		}
		return out
	}
	t.Logf("sstables after compaction: %v", names())
	walDir, sstDir := e.cfg.WALDir, e.cfg.SSTDir
	if err := e.Close(); err != nil {
		t.Fatalf("Close: %v", err)
	}
	if err := os.RemoveAll(walDir); err != nil {
		t.Fatal(err)
	}
	l1, _ := filepath.Glob(filepath.Join(sstDir, "1_*.sst"))
	if len(l1) == 0 {
		t.Fatalf("compaction produced no level-1 file")
	}

	e, err = NewEngineFacade(dir)
	if err != nil {
		t.Fatalf("reopen: %v", err)
	}
	defer e.Close()
	got, err := e.Get([]byte("k"))
	if err != nil {
		t.Fatalf("Get(k) after compaction+reopen: %v", err)
	}
	if string(got) != last {
		t.Errorf("Get(k) after compaction+reopen = %q, want newest %q", got, last)
	}
}
