package compaction

import (
	"bytes"
	"fmt"
	"os"
	"path/filepath"
	"sort"
	"testing"

	"github.com/KevoDB/kevo/pkg/sstable"
)

// reproEntry is a key with either a value or a tombstone.
type reproEntry struct {
	value     string
	tombstone bool
}

func reproWriteSSTable(t *testing.T, dir string, level, seq int, timestamp int64, kvs map[string]reproEntry) string {
	t.Helper()
	path := filepath.Join(dir, fmt.Sprintf("%d_%06d_%020d.sst", level, seq, timestamp))
	w, err := sstable.NewWriter(path)
	if err != nil {
		t.Fatalf("NewWriter: %v", err)
	}
	keys := make([]string, 0, len(kvs))
	for k := range kvs {
		keys = append(keys, k)
	}
	sort.Strings(keys)
	for _, k := range keys {
		if kvs[k].tombstone {
			err = w.AddTombstone([]byte(k))
		} else {
			err = w.Add([]byte(k), []byte(kvs[k].value))
		}
		if err != nil {
			t.Fatalf("add %q: %v", k, err)
		}
	}
	if err := w.Finish(); err != nil {
		t.Fatalf("Finish: %v", err)
	}
	return path
}

// reproReadAll returns every entry of the given table files.
func reproReadAll(t *testing.T, paths []string) map[string]reproEntry {
	t.Helper()
	out := make(map[string]reproEntry)
	for _, p := range paths {
		r, err := sstable.OpenReader(p)
		if err != nil {
			t.Fatalf("OpenReader %s: %v", p, err)
		}
		it := r.NewIterator()
		for it.SeekToFirst(); it.Valid(); it.Next() {
			k := string(it.Key())
			e := reproEntry{value: string(it.Value())}
			if it.IsTombstone() {
				e = reproEntry{tombstone: true}
			}
			// The sstable iterator is known to yield the first entry twice after
			// SeekToFirst (unrelated defect); only flag conflicting duplicates.
			if prev, dup := out[k]; dup && prev != e {
				t.Errorf("key %q appears with two versions in compaction output: %+v and %+v", k, prev, e)
			}
			out[k] = e
		}
		r.Close()
	}
	return out
}

func reproCheck(t *testing.T, got, want map[string]reproEntry) {
	t.Helper()
	for k, w := range want {
		g, ok := got[k]
		if !ok {
			t.Errorf("key %q: missing from compaction output, want %+v", k, w)
			continue
		}
		if g != w {
			t.Errorf("key %q: compaction kept %+v, want newest version %+v", k, g, w)
		}
	}
	for k := range got {
		if _, ok := want[k]; !ok {
			t.Errorf("key %q: unexpected in compaction output", k)
		}
	}
}

// C2: compacting level-0 files must keep the version from the NEWEST file.
func TestReproC2ExecutorKeepsNewestL0Version(t *testing.T) {
	sstDir, cfg, cleanup := setupCompactionTest(t)
	defer cleanup()

	const ts = int64(1700000000000000000)
	// oldest
	reproWriteSSTable(t, sstDir, 0, 1, ts, map[string]reproEntry{
		"k":        {value: "v1"},
		"deleted":  {value: "old-live"},
		"revived":  {tombstone: true},
		"only-old": {value: "o"},
	})
	// middle
	reproWriteSSTable(t, sstDir, 0, 2, ts+1, map[string]reproEntry{
		"k": {value: "v2"},
	})
	// newest
	reproWriteSSTable(t, sstDir, 0, 3, ts+2, map[string]reproEntry{
		"k":        {value: "v3"},
		"deleted":  {tombstone: true},
		"revived":  {value: "new-live"},
		"only-new": {value: "n"},
	})

	// nil tombstone manager: tombstones are kept while TargetLevel <= MaxLevelWithTombstones
	executor := NewCompactionExecutor(cfg, sstDir, nil)
	strategy := NewBaseCompactionStrategy(cfg, sstDir)
	if err := strategy.LoadSSTables(); err != nil {
		t.Fatalf("LoadSSTables: %v", err)
	}
	defer strategy.Close()
	if len(strategy.levels[0]) != 3 {
		t.Fatalf("expected 3 L0 files, got %d", len(strategy.levels[0]))
	}

	task := &CompactionTask{
		InputFiles:         map[int][]*SSTableInfo{0: strategy.levels[0]},
		TargetLevel:        1,
		OutputPathTemplate: filepath.Join(sstDir, "%d_%06d_%020d.sst"),
	}
	outputs, err := executor.CompactFiles(task)
	if err != nil {
		t.Fatalf("CompactFiles: %v", err)
	}

	reproCheck(t, reproReadAll(t, outputs), map[string]reproEntry{
		"k":        {value: "v3"},
		"deleted":  {tombstone: true},
		"revived":  {value: "new-live"},
		"only-old": {value: "o"},
		"only-new": {value: "n"},
	})
}

// C2: the order must not depend on the order in which the task lists the files,
// and L0 must still take precedence over the (older) L1 inputs.
func TestReproC2ExecutorTwoLevels(t *testing.T) {
	sstDir, cfg, cleanup := setupCompactionTest(t)
	defer cleanup()

	const ts = int64(1700000000000000000)
	reproWriteSSTable(t, sstDir, 1, 1, ts, map[string]reproEntry{
		"k": {value: "L1"}, "l1": {value: "L1"},
	})
	reproWriteSSTable(t, sstDir, 0, 1, ts+1, map[string]reproEntry{
		"k": {value: "L0-old"}, "m": {value: "L0-old"},
	})
	reproWriteSSTable(t, sstDir, 0, 2, ts+2, map[string]reproEntry{
		"k": {value: "L0-new"}, "m": {value: "L0-new"},
	})

	executor := NewCompactionExecutor(cfg, sstDir, nil)
	strategy := NewBaseCompactionStrategy(cfg, sstDir)
	if err := strategy.LoadSSTables(); err != nil {
		t.Fatalf("LoadSSTables: %v", err)
	}
	defer strategy.Close()

	task := &CompactionTask{
		InputFiles: map[int][]*SSTableInfo{
			0: strategy.levels[0],
			1: strategy.levels[1],
		},
		TargetLevel:        1,
		OutputPathTemplate: filepath.Join(sstDir, "%d_%06d_%020d.sst"),
	}
	outputs, err := executor.CompactFiles(task)
	if err != nil {
		t.Fatalf("CompactFiles: %v", err)
	}
	reproCheck(t, reproReadAll(t, outputs), map[string]reproEntry{
		"k": {value: "L0-new"}, "m": {value: "L0-new"}, "l1": {value: "L1"},
	})
}

// C2 end to end through the coordinator (the path the engine uses).
func TestReproC2CoordinatorKeepsNewestL0Version(t *testing.T) {
	sstDir, cfg, cleanup := setupCompactionTest(t) // MaxMemTables = 2 -> two L0 files trigger compaction
	defer cleanup()

	const ts = int64(1700000000000000000)
	reproWriteSSTable(t, sstDir, 0, 1, ts, map[string]reproEntry{"k": {value: "v1"}})
	reproWriteSSTable(t, sstDir, 0, 2, ts+1, map[string]reproEntry{"k": {value: "v2"}})

	mgr := NewCompactionManager(cfg, sstDir)
	if err := mgr.TriggerCompaction(); err != nil {
		t.Fatalf("TriggerCompaction: %v", err)
	}

	entries, err := os.ReadDir(sstDir)
	if err != nil {
		t.Fatal(err)
	}
	var l1 []string
	for _, e := range entries {
		if len(e.Name()) > 2 && e.Name()[:2] == "1_" {
			l1 = append(l1, filepath.Join(sstDir, e.Name()))
		}
	}
	if len(l1) == 0 {
		t.Fatalf("no level-1 output produced; dir: %v", entries)
	}
	got := reproReadAll(t, l1)
	if !bytes.Equal([]byte(got["k"].value), []byte("v2")) {
		t.Errorf("after compaction k = %+v, want newest value v2", got["k"])
	}
}
