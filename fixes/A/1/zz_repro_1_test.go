package storage

import (
	"fmt"
	"os"
	"path/filepath"
	"testing"

	"github.com/KevoDB/kevo/pkg/config"
	"github.com/KevoDB/kevo/pkg/stats"
)

func reproCfgD1(dir string) *config.Config {
	return &config.Config{
		Version:         config.CurrentManifestVersion,
		SSTDir:          filepath.Join(dir, "sst"),
		WALDir:          filepath.Join(dir, "wal"),
		MemTableSize:    1024 * 1024,
		MemTablePoolCap: 2,
		MaxMemTables:    2,
	}
}

// D1: the sequence counter must survive a WAL rotation.
func TestReproD1_SequenceSurvivesWALRotation(t *testing.T) {
	dir, err := os.MkdirTemp("", "repro-d1-*")
	if err != nil {
		t.Fatal(err)
	}
	defer os.RemoveAll(dir)
	cfg := reproCfgD1(dir)

	m, err := NewManager(cfg, stats.NewAtomicCollector())
	if err != nil {
		t.Fatal(err)
	}
	k := []byte("k")
	for i := 1; i <= 5; i++ {
		if err := m.Put(k, []byte(fmt.Sprintf("v%d", i))); err != nil {
			t.Fatal(err)
		}
	}
	before := m.GetStorageStats()["last_sequence"].(uint64)
	if err := m.FlushMemTables(); err != nil {
		t.Fatal(err)
	}
	if err := m.Put(k, []byte("new")); err != nil {
		t.Fatal(err)
	}
	after := m.GetStorageStats()["last_sequence"].(uint64)
	if after <= before {
		t.Errorf("last_sequence went from %d to %d across WAL rotation", before, after)
	}
	got, err := m.Get(k)
	if err != nil || string(got) != "new" {
		t.Errorf("Get(k) after flush+put = %q, %v; want \"new\"", got, err)
	}
	if err := m.Close(); err != nil {
		t.Fatal(err)
	}

	m2, err := NewManager(cfg, stats.NewAtomicCollector())
	if err != nil {
		t.Fatal(err)
	}
	defer m2.Close()
	got, err = m2.Get(k)
	if err != nil || string(got) != "new" {
		t.Errorf("Get(k) after reopen = %q, %v; want \"new\"", got, err)
	}
}
