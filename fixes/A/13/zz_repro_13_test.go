package storage

import (
	"bytes"
	"fmt"
	"os"
	"path/filepath"
	"testing"

	"github.com/KevoDB/kevo/pkg/config"
	"github.com/KevoDB/kevo/pkg/stats"
)

// D13: a log that needs more than MaxMemTables memtables must still be
// recovered completely; it must not be moved aside with the engine opening empty.
func TestReproD13_RecoveryNotCappedByMaxMemTables(t *testing.T) {
	dir, err := os.MkdirTemp("", "repro-d13-*")
	if err != nil {
		t.Fatal(err)
	}
	defer os.RemoveAll(dir)
	cfg := &config.Config{
		Version:         config.CurrentManifestVersion,
		SSTDir:          filepath.Join(dir, "sst"),
		WALDir:          filepath.Join(dir, "wal"),
		MemTableSize:    256,
		MemTablePoolCap: 2,
		MaxMemTables:    2,
	}

	m, err := NewManager(cfg, stats.NewAtomicCollector())
	if err != nil {
		t.Fatal(err)
	}
	const n = 10
	val := func(i int) []byte { return bytes.Repeat([]byte{byte('a' + i)}, 100) }
	for i := 0; i < n; i++ {
		if err := m.Put([]byte(fmt.Sprintf("key%02d", i)), val(i)); err != nil {
			t.Fatal(err)
		}
	}
	if err := m.Close(); err != nil {
		t.Fatal(err)
	}
	// Model a crash before any background flush became durable: only the log survives.
	ssts, _ := filepath.Glob(filepath.Join(cfg.SSTDir, "*.sst"))
	for _, f := range ssts {
		os.Remove(f)
	}

	m2, err := NewManager(cfg, stats.NewAtomicCollector())
	if err != nil {
		t.Fatal(err)
	}
	defer m2.Close()
	if backups, _ := filepath.Glob(filepath.Join(cfg.WALDir, "backup_*")); len(backups) != 0 {
		t.Errorf("log files were moved aside on reopen: %v", backups)
	}
	for i := 0; i < n; i++ {
		k := []byte(fmt.Sprintf("key%02d", i))
		got, err := m2.Get(k)
		if err != nil || !bytes.Equal(got, val(i)) {
			t.Errorf("after reopen Get(%s): err=%v len=%d", k, err, len(got))
		}
	}
	// new writes continue after the recovered sequence numbers
	if err := m2.Put([]byte("key00"), []byte("new")); err != nil {
		t.Fatal(err)
	}
	if got, err := m2.Get([]byte("key00")); err != nil || string(got) != "new" {
		t.Errorf("Get(key00) after overwrite = %q, %v", got, err)
	}
}
