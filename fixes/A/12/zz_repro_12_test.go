package storage

import (
	"bytes"
	"fmt"
	"os"
	"path/filepath"
	"testing"

	"github.com/KevoDB/kevo/pkg/config"
	"github.com/KevoDB/kevo/pkg/stats"
)

// D12: every key recovered from the log must be readable right after reopen,
// also the ones that ended up in a non-last recovered memtable.
func TestReproD12_RecoveredImmutablesVisible(t *testing.T) {
	dir, err := os.MkdirTemp("", "repro-d12-*")
	if err != nil {
		t.Fatal(err)
	}
	defer os.RemoveAll(dir)
	cfg := &config.Config{
		Version:         config.CurrentManifestVersion,
		SSTDir:          filepath.Join(dir, "sst"),
		WALDir:          filepath.Join(dir, "wal"),
		MemTableSize:    256,
		MemTablePoolCap: 8,
		MaxMemTables:    8,
	}

	m, err := NewManager(cfg, stats.NewAtomicCollector())
	if err != nil {
		t.Fatal(err)
	}
	const n = 12
	val := func(i int) []byte { return bytes.Repeat([]byte{byte('a' + i)}, 100) }
	for i := 0; i < n; i++ {
		if err := m.Put([]byte(fmt.Sprintf("key%02d", i)), val(i)); err != nil {
			t.Fatal(err)
		}
	}
	if err := m.Close(); err != nil {
		t.Fatal(err)
	}
	// Model a crash before any background flush became durable: only the log survives.
	ssts, _ := filepath.Glob(filepath.Join(cfg.SSTDir, "*.sst"))
	for _, f := range ssts {
		os.Remove(f)
	}

	m2, err := NewManager(cfg, stats.NewAtomicCollector())
	if err != nil {
		t.Fatal(err)
	}
	defer m2.Close()
	for i := 0; i < n; i++ {
		k := []byte(fmt.Sprintf("key%02d", i))
		got, err := m2.Get(k)
		if err != nil || !bytes.Equal(got, val(i)) {
			t.Errorf("after reopen Get(%s): err=%v len=%d", k, err, len(got))
		}
	}
	it, err := m2.GetIterator()
	if err != nil {
		t.Fatal(err)
	}
	cnt := 0
	for it.SeekToFirst(); it.Valid(); it.Next() {
		cnt++
	}
	if cnt != n {
		t.Errorf("scan after reopen saw %d keys, want %d", cnt, n)
	}
}
