package wal

import (
	"bytes"
	"fmt"
	"os"
	"testing"

	"github.com/KevoDB/kevo/pkg/config"
)

func reproD14WriteLog(t *testing.T, dir string, n int, valueSize int) string {
	t.Helper()
	cfg := config.NewDefaultConfig(dir)
	w, err := NewWAL(cfg, dir)
	if err != nil {
		t.Fatal(err)
	}
	for i := 0; i < n; i++ {
		v := bytes.Repeat([]byte{byte('a' + i)}, valueSize)
		if _, err := w.Append(OpTypePut, []byte(fmt.Sprintf("key%d", i)), v); err != nil {
			t.Fatal(err)
		}
	}
	if err := w.Close(); err != nil {
		t.Fatal(err)
	}
	files, err := FindWALFiles(dir)
	if err != nil || len(files) != 1 {
		t.Fatalf("FindWALFiles: %v %v", files, err)
	}
	return files[0]
}

func reproD14Cut(t *testing.T, path string, by int64) {
	t.Helper()
	st, err := os.Stat(path)
	if err != nil {
		t.Fatal(err)
	}
	if err := os.Truncate(path, st.Size()-by); err != nil {
		t.Fatal(err)
	}
}

// D14: a log whose final record was cut short by a crash must replay all
// complete records before it and report success.
func TestReproD14_TruncatedTailPayload(t *testing.T) {
	dir := t.TempDir()
	path := reproD14WriteLog(t, dir, 5, 10)
	reproD14Cut(t, path, 3) // inside the payload of the last record

	var keys []string
	stats, err := ReplayWALDir(dir, func(e *Entry) error { keys = append(keys, string(e.Key)); return nil })
	if err != nil {
		t.Fatalf("ReplayWALDir on log with torn tail: %v", err)
	}
	if len(keys) != 4 || stats.EntriesProcessed != 4 {
		t.Errorf("replayed %v (processed=%d), want the 4 complete entries", keys, stats.EntriesProcessed)
	}
}

func TestReproD14_TruncatedTailHeader(t *testing.T) {
	dir := t.TempDir()
	path := reproD14WriteLog(t, dir, 5, 10)
	// last record = 7 header + 1+8+4+4 + 4+10 payload = 38 bytes; leave 3 header bytes
	reproD14Cut(t, path, 35)

	n := 0
	if _, err := ReplayWALDir(dir, func(e *Entry) error { n++; return nil }); err != nil {
		t.Fatalf("ReplayWALDir on log with torn header: %v", err)
	}
	if n != 4 {
		t.Errorf("replayed %d entries, want 4", n)
	}
}

func reproD14WriteFragmentedLog(t *testing.T, dir string) (string, int) {
	t.Helper()
	// 4 small entries, then one fragmented entry (First + Middle + Last)
	cfg := config.NewDefaultConfig(dir)
	w, err := NewWAL(cfg, dir)
	if err != nil {
		t.Fatal(err)
	}
	for i := 0; i < 4; i++ {
		if _, err := w.Append(OpTypePut, []byte(fmt.Sprintf("key%d", i)), []byte("v")); err != nil {
			t.Fatal(err)
		}
	}
	big := bytes.Repeat([]byte{'x'}, 2*MaxRecordSize+100)
	if _, err := w.Append(OpTypePut, []byte("big"), big); err != nil {
		t.Fatal(err)
	}
	if err := w.Close(); err != nil {
		t.Fatal(err)
	}
	files, _ := FindWALFiles(dir)
	// data after the first fragment = 4 (value length) + len(big); middle fragments
	// are MaxRecordSize each, the last fragment holds the rest
	lastFragPayload := (4 + len(big)) % MaxRecordSize
	return files[0], lastFragPayload
}

// cut inside the last fragment of a fragmented entry
func TestReproD14_TruncatedInsideLastFragment(t *testing.T) {
	dir := t.TempDir()
	path, _ := reproD14WriteFragmentedLog(t, dir)
	reproD14Cut(t, path, 3)
	n := 0
	if _, err := ReplayWALDir(dir, func(e *Entry) error { n++; return nil }); err != nil {
		t.Fatalf("ReplayWALDir with torn last fragment: %v", err)
	}
	if n != 4 {
		t.Errorf("replayed %d entries, want 4", n)
	}
}

// cut exactly at a fragment boundary: the whole last fragment is missing, so the
// reader hits a clean EOF while holding fragments
func TestReproD14_MissingLastFragment(t *testing.T) {
	dir := t.TempDir()
	path, lastFragPayload := reproD14WriteFragmentedLog(t, dir)
	reproD14Cut(t, path, int64(HeaderSize+lastFragPayload))
	n := 0
	if _, err := ReplayWALDir(dir, func(e *Entry) error { n++; return nil }); err != nil {
		t.Fatalf("ReplayWALDir with missing last fragment: %v", err)
	}
	if n != 4 {
		t.Errorf("replayed %d entries, want 4", n)
	}
}
