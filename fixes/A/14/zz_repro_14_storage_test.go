package storage

import (
	"fmt"
	"os"
	"path/filepath"
	"testing"

	"github.com/KevoDB/kevo/pkg/config"
	"github.com/KevoDB/kevo/pkg/stats"
)

// D14 at manager level: a crash in the middle of writing the last log record
// must not make the engine discard the whole log.
func TestReproD14_ManagerSurvivesTornLogTail(t *testing.T) {
	dir, err := os.MkdirTemp("", "repro-d14-*")
	if err != nil {
		t.Fatal(err)
	}
	defer os.RemoveAll(dir)
	cfg := &config.Config{
		Version:         config.CurrentManifestVersion,
		SSTDir:          filepath.Join(dir, "sst"),
		WALDir:          filepath.Join(dir, "wal"),
		MemTableSize:    1024 * 1024,
		MemTablePoolCap: 2,
		MaxMemTables:    2,
	}
	m, err := NewManager(cfg, stats.NewAtomicCollector())
	if err != nil {
		t.Fatal(err)
	}
	for i := 0; i < 5; i++ {
		if err := m.Put([]byte(fmt.Sprintf("key%d", i)), []byte(fmt.Sprintf("value%d", i))); err != nil {
			t.Fatal(err)
		}
	}
	if err := m.Close(); err != nil {
		t.Fatal(err)
	}
	logs, _ := filepath.Glob(filepath.Join(cfg.WALDir, "*.wal"))
	if len(logs) != 1 {
		t.Fatalf("expected one log file, got %v", logs)
	}
	st, _ := os.Stat(logs[0])
	if err := os.Truncate(logs[0], st.Size()-3); err != nil {
		t.Fatal(err)
	}

	m2, err := NewManager(cfg, stats.NewAtomicCollector())
	if err != nil {
		t.Fatal(err)
	}
	defer m2.Close()
	if backups, _ := filepath.Glob(filepath.Join(cfg.WALDir, "backup_*")); len(backups) != 0 {
		t.Errorf("log files were moved aside on reopen: %v", backups)
	}
	for i := 0; i < 4; i++ {
		k := []byte(fmt.Sprintf("key%d", i))
		got, err := m2.Get(k)
		if err != nil || string(got) != fmt.Sprintf("value%d", i) {
			t.Errorf("after reopen Get(%s) = %q, %v", k, got, err)
		}
	}
}
