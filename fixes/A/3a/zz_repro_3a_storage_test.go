package storage

import (
	"bytes"
	"os"
	"path/filepath"
	"testing"

	"github.com/KevoDB/kevo/pkg/config"
	"github.com/KevoDB/kevo/pkg/stats"
	"github.com/KevoDB/kevo/pkg/wal"
)

func reproD3aManager(t *testing.T) (*Manager, func()) {
	t.Helper()
	dir, err := os.MkdirTemp("", "repro-d3a-*")
	if err != nil {
		t.Fatal(err)
	}
	cfg := &config.Config{
		Version:         config.CurrentManifestVersion,
		SSTDir:          filepath.Join(dir, "sst"),
		WALDir:          filepath.Join(dir, "wal"),
		MemTableSize:    1024 * 1024,
		MemTablePoolCap: 2,
		MaxMemTables:    2,
	}
	m, err := NewManager(cfg, stats.NewAtomicCollector())
	if err != nil {
		os.RemoveAll(dir)
		t.Fatal(err)
	}
	return m, func() { m.Close(); os.RemoveAll(dir) }
}

// D3a (i) at manager level: Put with an empty value (nil or []byte{}) must read
// back as found-with-empty-value, through Get, IsDeleted, a batch and a scan.
func TestReproD3a_ManagerEmptyValueReadable(t *testing.T) {
	m, cleanup := reproD3aManager(t)
	defer cleanup()

	if err := m.Put([]byte("knil"), nil); err != nil {
		t.Fatal(err)
	}
	if err := m.Put([]byte("kempty"), []byte{}); err != nil {
		t.Fatal(err)
	}
	if err := m.ApplyBatch([]*wal.Entry{{Type: wal.OpTypePut, Key: []byte("kbatch"), Value: nil}}); err != nil {
		t.Fatal(err)
	}
	for _, k := range []string{"knil", "kempty", "kbatch"} {
		got, err := m.Get([]byte(k))
		if err != nil || len(got) != 0 {
			t.Errorf("Get(%s) = %q, %v; want empty value, nil error", k, got, err)
		}
		if del, err := m.IsDeleted([]byte(k)); err != nil || del {
			t.Errorf("IsDeleted(%s) = %v, %v; want false, nil", k, del, err)
		}
	}
	it, err := m.GetIterator()
	if err != nil {
		t.Fatal(err)
	}
	seen := 0
	for it.SeekToFirst(); it.Valid(); it.Next() {
		if it.IsTombstone() {
			t.Errorf("scan reports %s as a tombstone", it.Key())
		}
		seen++
	}
	if seen != 3 {
		t.Errorf("scan saw %d keys, want 3", seen)
	}
}

// D3a (ii): flushing a key with an empty value must not write a tombstone.
// NOTE: this one also needs the block builder's handling of empty values to be
// repaired (pkg/sstable/block, done separately); until then it fails because the
// builder itself turns an empty value into a tombstone.
func TestReproD3a_FlushKeepsEmptyValue(t *testing.T) {
	m, cleanup := reproD3aManager(t)
	defer cleanup()

	if err := m.Put([]byte("kempty"), []byte{}); err != nil {
		t.Fatal(err)
	}
	if err := m.Put([]byte("kdel"), []byte("x")); err != nil {
		t.Fatal(err)
	}
	if err := m.Delete([]byte("kdel")); err != nil {
		t.Fatal(err)
	}
	if err := m.FlushMemTables(); err != nil {
		t.Fatal(err)
	}
	if len(m.sstables) != 1 {
		t.Fatalf("expected 1 sstable, got %d", len(m.sstables))
	}
	it := m.sstables[0].NewIterator()
	if !it.Seek([]byte("kempty")) || !bytes.Equal(it.Key(), []byte("kempty")) {
		t.Fatal("kempty not in sstable")
	}
	if it.IsTombstone() {
		t.Errorf("kempty was flushed as a tombstone")
	}
	it = m.sstables[0].NewIterator()
	if !it.Seek([]byte("kdel")) || !bytes.Equal(it.Key(), []byte("kdel")) {
		t.Fatal("kdel not in sstable")
	}
	if !it.IsTombstone() {
		t.Errorf("kdel (really deleted) was not flushed as a tombstone")
	}
}
