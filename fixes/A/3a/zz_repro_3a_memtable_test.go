package memtable

import "testing"

// D3a (i): a key written with an empty value is a live key, not a deletion.
func TestReproD3a_MemTableEmptyValueIsNotDeletion(t *testing.T) {
	for name, v := range map[string][]byte{"nil": nil, "empty": {}} {
		mt := NewMemTable()
		mt.Put([]byte("k"), v, 1)

		got, found := mt.Get([]byte("k"))
		if !found {
			t.Fatalf("%s: key not found", name)
		}
		if got == nil {
			t.Errorf("%s: Get returned a nil value, which callers read as a deletion marker", name)
		}
		if len(got) != 0 {
			t.Errorf("%s: Get returned %q, want empty", name, got)
		}

		it := mt.NewIterator()
		it.SeekToFirst()
		if !it.Valid() || it.IsTombstone() {
			t.Fatalf("%s: iterator valid=%v tombstone=%v", name, it.Valid(), it.IsTombstone())
		}
		if it.Value() == nil {
			t.Errorf("%s: iterator Value() is nil for a TypeValue entry", name)
		}
		ad := NewIteratorAdapter(mt.NewIterator())
		ad.SeekToFirst()
		if ad.Value() == nil {
			t.Errorf("%s: adapter Value() is nil for a TypeValue entry", name)
		}

		// a real deletion still reads as (nil, true)
		mt.Delete([]byte("k"), 2)
		if got, found := mt.Get([]byte("k")); !found || got != nil {
			t.Errorf("%s: after Delete Get = %v, %v; want nil, true", name, got, found)
		}
	}
}
