package storage

import (
	"os"
	"path/filepath"
	"testing"

	"github.com/KevoDB/kevo/pkg/config"
	"github.com/KevoDB/kevo/pkg/stats"
	"github.com/KevoDB/kevo/pkg/wal"
)

func reproCfgD2(dir string) *config.Config {
	return &config.Config{
		Version:         config.CurrentManifestVersion,
		SSTDir:          filepath.Join(dir, "sst"),
		WALDir:          filepath.Join(dir, "wal"),
		MemTableSize:    1024 * 1024,
		MemTablePoolCap: 2,
		MaxMemTables:    2,
	}
}

// D2: a write issued after a committed batch must win over the batch's entries.
func TestReproD2_PutAfterBatchWins(t *testing.T) {
	dir, err := os.MkdirTemp("", "repro-d2-*")
	if err != nil {
		t.Fatal(err)
	}
	defer os.RemoveAll(dir)
	cfg := reproCfgD2(dir)

	m, err := NewManager(cfg, stats.NewAtomicCollector())
	if err != nil {
		t.Fatal(err)
	}
	batch := []*wal.Entry{
		{Type: wal.OpTypePut, Key: []byte("a"), Value: []byte("1")},
		{Type: wal.OpTypePut, Key: []byte("b"), Value: []byte("1")},
		{Type: wal.OpTypePut, Key: []byte("c"), Value: []byte("1")},
	}
	if err := m.ApplyBatch(batch); err != nil {
		t.Fatal(err)
	}
	if err := m.Put([]byte("c"), []byte("2")); err != nil {
		t.Fatal(err)
	}
	got, err := m.Get([]byte("c"))
	if err != nil || string(got) != "2" {
		t.Errorf("Get(c) = %q, %v; want \"2\"", got, err)
	}
	// last_sequence must agree with the log's counter
	if ls, next := m.GetStorageStats()["last_sequence"].(uint64), m.GetWAL().GetNextSequence(); ls+1 != next {
		t.Errorf("last_sequence=%d but WAL next sequence=%d", ls, next)
	}

	// order inside one batch is still last-wins
	batch2 := []*wal.Entry{
		{Type: wal.OpTypePut, Key: []byte("d"), Value: []byte("1")},
		{Type: wal.OpTypePut, Key: []byte("d"), Value: []byte("2")},
		{Type: wal.OpTypeDelete, Key: []byte("a")},
	}
	if err := m.ApplyBatch(batch2); err != nil {
		t.Fatal(err)
	}
	if got, err := m.Get([]byte("d")); err != nil || string(got) != "2" {
		t.Errorf("Get(d) = %q, %v; want \"2\"", got, err)
	}
	if _, err := m.Get([]byte("a")); err != ErrKeyNotFound {
		t.Errorf("Get(a) err = %v; want ErrKeyNotFound", err)
	}
	if err := m.Close(); err != nil {
		t.Fatal(err)
	}

	// and the same answers after recovery from the log
	m2, err := NewManager(cfg, stats.NewAtomicCollector())
	if err != nil {
		t.Fatal(err)
	}
	defer m2.Close()
	if got, err := m2.Get([]byte("c")); err != nil || string(got) != "2" {
		t.Errorf("after reopen Get(c) = %q, %v; want \"2\"", got, err)
	}
	if got, err := m2.Get([]byte("d")); err != nil || string(got) != "2" {
		t.Errorf("after reopen Get(d) = %q, %v; want \"2\"", got, err)
	}
	if _, err := m2.Get([]byte("a")); err != ErrKeyNotFound {
		t.Errorf("after reopen Get(a) err = %v; want ErrKeyNotFound", err)
	}
}
