"""core orchestration for /verif/check (see DESIGN.md section 5)."""
import glob
import os, sys, json, time, re, subprocess, hashlib, fcntl, shutil, glob, concurrent.futures as cf

VERIF = os.path.dirname(os.path.dirname(os.path.abspath(__file__)))
REPO = os.environ.get('VERIF_REPO', '/repo')
ALT = os.path.realpath(REPO) != '/repo'
BUILD = os.environ.get('VERIF_BUILD') or (os.path.join(VERIF, 'build') if not ALT else
                                          os.path.join(VERIF, 'build', 'alt-' + hashlib.sha1(REPO.encode()).hexdigest()[:10]))
LEAN = os.path.join(VERIF, 'lean') if not ALT else os.path.join(BUILD, 'lean')
OUT = os.path.join(VERIF, 'out') if not ALT else os.path.join(BUILD, 'out')
EVID = os.path.join(VERIF, 'evidence') if not ALT else os.path.join(BUILD, 'evidence')
NCPU = os.cpu_count() or 4
ALLOWED_AXIOMS = {'propext', 'Classical.choice', 'Quot.sound'}
FORBIDDEN = re.compile(r'\b(sorry|admit|native_decide|bv_decide|implemented_by|unsafe)\b|^\s*axiom\s|maxHeartbeats\s+0\b')

GOENV = dict(os.environ, GOFLAGS='-mod=mod', GOPROXY='off')
GOENV.pop('GOTOOLCHAIN', None)
GOENV.pop('GOSUMDB', None)


def sh(cmd, cwd=None, env=None, timeout=None, stdin=None, stdout=None):
    t0 = time.time()
    try:
        p = subprocess.run(cmd, cwd=cwd, env=env, timeout=timeout, stdin=stdin,
                           stdout=stdout if stdout is not None else subprocess.PIPE,
                           stderr=subprocess.STDOUT if stdout is None else subprocess.PIPE, text=(stdout is None))
        out = p.stdout if stdout is None else (p.stderr.decode('utf-8', 'replace') if p.stderr else '')
        return p.returncode, out, time.time() - t0
    except subprocess.TimeoutExpired as e:
        return 124, 'timeout after %ss' % timeout, time.time() - t0


class Lock:
    def __init__(self, name):
        os.makedirs(BUILD, exist_ok=True)
        self.path = os.path.join(BUILD, name)
    def __enter__(self):
        self.f = open(self.path, 'w')
        fcntl.flock(self.f, fcntl.LOCK_EX)
    def __exit__(self, *a):
        fcntl.flock(self.f, fcntl.LOCK_UN)
        self.f.close()


class Ctx:
    def __init__(self, prop, tier, seed):
        self.prop, self.tier, self.seed = prop, tier, seed
        self.t0 = time.time()
        self.work = os.path.join(BUILD, 'work', prop.id)
        shutil.rmtree(self.work, ignore_errors=True)
        os.makedirs(self.work, exist_ok=True)
        os.makedirs(OUT, exist_ok=True)
        os.makedirs(EVID, exist_ok=True)
        self.broken = []       # list of (kind, detail) – proof obligations / correspondence that no longer check
        self.violations = []   # list of dict(replay=path, note=..)
        self.known = []        # list of str
        self.obligations = []  # list of dict(name, kind, ok, axioms)
        self.cov = dict(evaluations=0, distinct_nontrivial=0, samples=[], traces_validated_against_impl=0,
                        components={}, mismatches=0, oracle_failures=0)
        self.seen = set()
        self.model_ok = True
        self.harness_ok = True
        self.log = []

    def say(self, *a):
        msg = ' '.join(str(x) for x in a)
        self.log.append(msg)
        print(msg, flush=True)


# ----------------------------------------------------------------------------------------------------------
# step 1-3: regenerate, prove, build
# ----------------------------------------------------------------------------------------------------------

def sync_alt_lean():
    if not ALT:
        return
    os.makedirs(BUILD, exist_ok=True)
    sh(['rsync', '-a', '--delete', '--exclude', '/Kevo/Gen/', os.path.join(VERIF, 'lean') + '/', LEAN + '/'])
    os.makedirs(os.path.join(LEAN, 'Kevo', 'Gen'), exist_ok=True)


def load_expect():
    exp = {}
    for f in sorted(glob.glob(os.path.join(VERIF, 'extract', 'expect', '*.json'))):
        with open(f) as fh:
            exp.update(json.load(fh))
    return exp


def fact_get(facts, key):
    sec, name = key.split(':', 1)
    return facts.get(sec, {}).get(name)


def go_build_atomic(cmd_prefix, target, cwd, timeout):
    """go build into a private temporary name, then rename over the target: other checks may be executing (and re-executing)
    the current binary at this very moment; a rename never exposes a half-written file and running processes keep theirs."""
    tmp = '%s.tmp.%d' % (target, os.getpid())
    rc, out, dt = sh(cmd_prefix + ['-o', tmp, '.'], cwd=cwd, env=GOENV, timeout=timeout)
    if rc == 0:
        try:
            # keep the old inode when nothing changed (identical bytes): avoids needless churn
            if os.path.exists(target) and open(tmp, 'rb').read() == open(target, 'rb').read():
                os.remove(tmp)
            else:
                os.replace(tmp, target)
        except OSError as e:
            return 1, 'cannot install %s: %s' % (target, e), dt
    else:
        try:
            os.remove(tmp)
        except OSError:
            pass
    return rc, out, dt


def prepare(ctx):
    """Regenerate Gen from the source, check expectations, build proofs, audit, build harness. Serialised."""
    p = ctx.prop
    with Lock('prepare.lock'):
        sync_alt_lean()
        # --- kvfacts
        rc, out, _ = go_build_atomic(['go', 'build'], os.path.join(BUILD, 'kvfacts'), os.path.join(VERIF, 'extract'), 300)
        if rc != 0:
            ctx.broken.append(('tool', 'kvfacts does not build: ' + out[-400:]))
            return
        facts_path = os.path.join(BUILD, 'facts.json')
        rc, out, _ = sh([os.path.join(BUILD, 'kvfacts'), '-repo', REPO, '-gen', os.path.join(LEAN, 'Kevo', 'Gen'), '-json', facts_path], timeout=120)
        facts = {}
        if os.path.exists(facts_path):
            with open(facts_path) as fh:
                facts = json.load(fh)
        errs = facts.get('errors') or []
        relevant_err = [e for e in errs if any(tag in e for tag in p.fact_tags)] if p.fact_tags else errs
        for e in relevant_err:
            ctx.broken.append(('translator', e))
            ctx.obligations.append(dict(name='kvfacts:' + e[:60], kind='translator', ok=False))
        # --- expectations
        exp = load_expect()
        for key in p.facts:
            keys = [k for k in exp if re.fullmatch(key.replace('.', r'\.').replace('*', '.*'), k)] if '*' in key else [key]
            if not keys:
                ctx.broken.append(('expectation', 'no expectation recorded for ' + key))
            for k in keys:
                want, got = exp.get(k), fact_get(facts, k)
                ok = (want == got) and want is not None
                ctx.obligations.append(dict(name='fact ' + k, kind='fact', ok=ok, expected=want, got=got))
                if not ok:
                    ctx.broken.append(('fact', '%s: expected %r, source now says %r' % (k, want, got)))
        # --- lean proofs
        t = time.time()
        targets = [p.lean_module, 'kvmodel']
        rc, out, dt = sh(['lake', 'build'] + targets, cwd=LEAN, timeout=3000)
        out = '\n'.join(l for l in out.splitlines() if not l.startswith('trace:'))
        if rc != 0:
            # which one failed? try separately so that the model driver can still be used
            rc1, out1, _ = sh(['lake', 'build', p.lean_module], cwd=LEAN, timeout=3000)
            rc2, out2, _ = sh(['lake', 'build', 'kvmodel'], cwd=LEAN, timeout=3000)
            if rc1 != 0:
                errl = [l for l in out1.splitlines() if 'error' in l][:6]
                ctx.broken.append(('proof', 'lake build %s failed: %s' % (p.lean_module, ' | '.join(errl))))
            if rc2 != 0:
                ctx.model_ok = False
                errl = [l for l in out2.splitlines() if 'error' in l][:6]
                ctx.broken.append(('model', 'lake build kvmodel failed: ' + ' | '.join(errl)))
        ctx.cov['lean_build_s'] = round(time.time() - t, 1)
        audit(ctx, proofs_built=not any(k == 'proof' for k, _ in ctx.broken))
        # --- harness
        hdir = os.path.join(VERIF, 'harness')
        try:
            shutil.copyfile(os.path.join(REPO, 'go.sum'), os.path.join(hdir, 'go.sum'))
        except OSError:
            pass
        cmd = ['go', 'build', '-tags', 'verif', '-o', os.path.join(BUILD, 'kvharness'), '.']
        if ALT:
            mod = open(os.path.join(hdir, 'go.mod')).read().replace('=> /repo', '=> ' + os.path.realpath(REPO))
            altmod = os.path.join(BUILD, 'go.alt.mod')
            open(altmod, 'w').write(mod)
            shutil.copyfile(os.path.join(REPO, 'go.sum'), os.path.join(BUILD, 'go.alt.sum'))
            cmd = ['go', 'build', '-modfile', altmod, '-tags', 'verif', '-o', os.path.join(BUILD, 'kvharness'), '.']
        rc, out, _ = go_build_atomic(cmd[:cmd.index('-o')], os.path.join(BUILD, 'kvharness'), hdir, 900)
        if rc != 0:
            ctx.harness_ok = False
            ctx.broken.append(('build', 'harness/implementation does not build: ' + out[-600:]))
        if p.needs_race:
            cmd_r = [c for c in cmd]
            cmd_r.insert(2, '-race')
            cmd_r[cmd_r.index('-o') + 1] = os.path.join(BUILD, 'kvharness-race')
            rc, out, _ = go_build_atomic(cmd_r[:cmd_r.index('-o')], os.path.join(BUILD, 'kvharness-race'), hdir, 1200)
            if rc != 0:
                ctx.broken.append(('build', 'race harness does not build: ' + out[-600:]))
        snapshot_binaries(ctx)


def import_closure(module):
    """lean source files of this project reachable from `module` through import lines"""
    seen, todo, files = set(), [module], []
    while todo:
        m = todo.pop()
        if m in seen:
            continue
        seen.add(m)
        f = os.path.join(LEAN, *m.split('.')) + '.lean'
        if not os.path.exists(f):
            continue
        files.append(f)
        for imp in re.findall(r'^import\s+(\S+)', open(f).read(), flags=re.M):
            if imp.startswith('Kevo') or imp.startswith('Driver'):
                todo.append(imp)
    return files


def audit(ctx, proofs_built):
    """#print axioms for every theorem of the property's Props module + forbidden-token grep."""
    p = ctx.prop
    src = os.path.join(LEAN, *p.lean_module.split('.')) + '.lean'
    try:
        text = open(src).read()
    except OSError:
        ctx.broken.append(('proof', 'missing ' + src))
        return
    ns = p.lean_module
    names = re.findall(r'^theorem\s+([A-Za-z0-9_\.\']+)', text, flags=re.M)
    statements = re.findall(r'^def\s+([A-Za-z0-9_]+_statement)\b', text, flags=re.M)
    ctx.cov['open_statements'] = statements
    # forbidden tokens anywhere in the lean sources (comments stripped)
    bad = []
    for f in import_closure(p.lean_module):
        body = re.sub(r'/-.*?-/', '', open(f).read(), flags=re.S)
        for i, line in enumerate(body.splitlines()):
            line = line.split('--')[0]
            if FORBIDDEN.search(line):
                bad.append('%s: %s' % (os.path.relpath(f, LEAN), line.strip()[:80]))
    if bad:
        ctx.broken.append(('audit', 'forbidden tokens: ' + '; '.join(bad[:5])))
    if not proofs_built:
        for n in names:
            ctx.obligations.append(dict(name=ns + '.' + n, kind='theorem', ok=False))
        return
    os.makedirs(os.path.join(BUILD, 'audit'), exist_ok=True)
    af = os.path.join(BUILD, 'audit', p.id + '.lean')
    with open(af, 'w') as fh:
        fh.write('import %s\n' % p.lean_module)
        for n in names:
            fh.write('#print axioms %s.%s\n' % (ns, n))
    rc, out, _ = sh(['lake', 'env', 'lean', af], cwd=LEAN, timeout=900)
    found = {}
    for m in re.finditer(r"'([^']+)' (does not depend on any axioms|depends on axioms: \[([^\]]*)\])", out.replace('\n', ' ')):
        ax = [a.strip() for a in (m.group(3) or '').split(',') if a.strip()]
        found[m.group(1)] = ax
    for n in names:
        full = ns + '.' + n
        ax = found.get(full)
        ok = ax is not None and set(ax) <= ALLOWED_AXIOMS
        ctx.obligations.append(dict(name=full, kind='theorem', ok=ok, axioms=ax))
        if not ok:
            ctx.broken.append(('audit', '%s: axioms %r' % (full, ax)))
    if not names:
        ctx.broken.append(('audit', 'no theorems in ' + p.lean_module))
    # thorough tier: the toolchain's independent re-checker replays the compiled module (and what it imports) through the kernel
    if ctx.tier == 'thorough':
        rc, out, dt = sh(['lake', 'env', 'leanchecker', p.lean_module], cwd=LEAN, timeout=1800)
        ok = rc == 0
        ctx.obligations.append(dict(name='leanchecker ' + p.lean_module, kind='recheck', ok=ok))
        ctx.cov['leanchecker_s'] = round(dt, 1)
        if not ok:
            ctx.broken.append(('audit', 'leanchecker rejects %s: %s' % (p.lean_module, out[-300:])))


# ----------------------------------------------------------------------------------------------------------
# step 3-4: differential runs and oracles
# ----------------------------------------------------------------------------------------------------------

# binaries of THIS run: private copies taken at the end of prepare(), so that a rebuild by a concurrent check (or a change of
# the source while a long run is in progress) cannot swap the code under a running check (the crash component re-executes
# its own binary for every kill point: plan and children must come from one build)
BIN = {}


def snapshot_binaries(ctx):
    d = os.path.join(ctx.work, 'bin')
    os.makedirs(d, exist_ok=True)
    for name, src in (('kvharness', os.path.join(BUILD, 'kvharness')), ('kvharness-race', os.path.join(BUILD, 'kvharness-race')),
                      ('kvmodel', os.path.join(LEAN, '.lake', 'build', 'bin', 'kvmodel'))):
        if os.path.exists(src):
            dst = os.path.join(d, name)
            shutil.copy2(src, dst)
            BIN[name] = dst


def exe_path(name):
    if name in BIN:
        return BIN[name]
    return os.path.join(LEAN, '.lake', 'build', 'bin', 'kvmodel') if name == 'kvmodel' else os.path.join(BUILD, name)


def patience(t):
    """stretch a time bound when the machine is overloaded (load average above the number of CPUs): a slow environment is not a
    hang. Never shortens; the harness does the same for its own watchdogs (harness/util.go patience)."""
    try:
        l1 = float(open('/proc/loadavg').read().split()[0])
        return t * min(12.0, max(1.0, l1 / (os.cpu_count() or 1)))
    except Exception:
        return t


def run_impl(comp, script_path, out_path, race=False, timeout=600, env=None):
    exe = exe_path('kvharness-race' if race else 'kvharness')
    with open(script_path, 'rb') as i, open(out_path, 'wb') as o:
        e = dict(os.environ)
        e['VERIF_REPO'] = os.path.realpath(REPO)
        e.setdefault('GOMEMLIMIT', '3GiB')
        if env:
            e.update(env)
        rc, err, dt = sh([exe, comp, 'run'], stdin=i, stdout=o, timeout=patience(timeout), env=e)
    return rc, err


def run_model(comp, script_path, out_path, timeout=900):
    exe = exe_path('kvmodel')
    with open(script_path, 'rb') as i, open(out_path, 'wb') as o:
        rc, err, dt = sh([exe, comp], stdin=i, stdout=o, timeout=patience(timeout))
    return rc, err


def read_lines(path):
    try:
        with open(path, 'r', errors='replace') as fh:
            return [l.rstrip('\n') for l in fh if l.strip()]
    except OSError:
        return []


def split_cases(script):
    """-> list of (start, end) line index ranges, one per '# case' block"""
    idx = [i for i, l in enumerate(script) if l.startswith('# case')]
    if not idx or idx[0] != 0:
        idx = [0] + idx
    return [(a, b) for a, b in zip(idx, idx[1:] + [len(script)])]


def exec_script(ctx, comp, script, tag, want_model=True, race=False, env=None, timeout=600):
    """Run a script (list of lines) on impl (+ model). Survives crashes of the impl process by restarting after
    the crashed case. Returns (impl_lines, model_lines, crashes) aligned with script lines (None where missing)."""
    sp = os.path.join(ctx.work, tag + '.script')
    with open(sp, 'w') as fh:
        fh.write('\n'.join(script) + '\n')
    impl = [None] * len(script)
    crashes = []
    pos = 0
    rounds = 0
    cases = split_cases(script)
    while pos < len(script) and rounds < 200:
        rounds += 1
        part = os.path.join(ctx.work, '%s.part%d.script' % (tag, rounds))
        with open(part, 'w') as fh:
            fh.write('\n'.join(script[pos:]) + '\n')
        outp = os.path.join(ctx.work, '%s.part%d.impl' % (tag, rounds))
        rc, err = run_impl(comp.name, part, outp, race=race, env=env, timeout=timeout)
        got = read_lines(outp)
        for j, l in enumerate(got[:len(script) - pos]):
            impl[pos + j] = l
        if len(got) >= len(script) - pos:
            if rc != 0:
                crashes.append(dict(case=None, rc=rc, stderr=(err or '')[-1500:]))
            break
        # crashed / hung inside the case containing line pos+len(got)
        bad = pos + len(got)
        c = next(((a, b) for a, b in cases if a <= bad < b), (bad, len(script)))
        if rc == 124 and c[0] > pos:
            # the time limit of the whole process ran out while it was making progress (a long script on a loaded machine):
            # not a hang of this case. Start again at the interrupted case with a fresh limit; only a case that uses up the
            # whole limit on its own is reported as hung.
            for j in range(c[0], len(script)):
                impl[j] = None
            pos = c[0]
            continue
        crashes.append(dict(case=c, rc=rc, stderr=(err or '')[-1500:], line=script[bad] if bad < len(script) else ''))
        for j in range(bad, c[1]):
            impl[j] = 'CRASH rc=%s' % rc if j == bad else 'CRASH-skipped'
        pos = c[1]
        if sum(1 for x in crashes if x.get('rc') == 124) >= 2:
            # two cases of this script hung for the whole time limit: the implementation is wedged in a way every further case
            # would hit as well; report what we have instead of spending the limit again and again
            for j in range(pos, len(script)):
                impl[j] = 'CRASH-skipped'
            break
    model = [None] * len(script)
    if want_model and ctx.model_ok and comp.differential:
        mo = os.path.join(ctx.work, tag + '.model')
        rc, err = run_model(comp.name, sp, mo)
        got = read_lines(mo)
        for j, l in enumerate(got[:len(script)]):
            model[j] = l
        if rc != 0 or len(got) < len(script):
            ctx.broken.append(('model', 'model driver stopped on component %s (rc=%s, %d/%d lines): %s' % (comp.name, rc, len(got), len(script), (err or '')[-200:])))
    # everything is in memory now: the files of this script are not needed any more (a thorough sweep kept ~100 GB of them)
    for f in glob.glob(os.path.join(ctx.work, glob.escape(tag) + '.*')):
        try:
            os.remove(f)
        except OSError:
            pass
    return impl, model, crashes


def case_hash(lines):
    return hashlib.sha1('\n'.join(lines).encode()).hexdigest()[:16]


class CaseResult:
    __slots__ = ('script', 'impl', 'model', 'mismatch', 'problems', 'nontrivial', 'crash', 'h')


def evaluate(ctx, comp, script, impl, model, crashes):
    res = []
    for a, b in split_cases(script):
        r = CaseResult()
        r.script, r.impl, r.model = script[a:b], impl[a:b], model[a:b]
        r.h = case_hash(r.script)
        r.crash = any(c.get('case') == (a, b) for c in crashes)
        r.mismatch = None
        if ctx.model_ok and comp.differential:
            for j, (x, y) in enumerate(zip(r.impl, r.model)):
                if x != y and y is not None:
                    r.mismatch = j
                    break
        try:
            r.problems = comp.oracle(r.script, r.impl) if comp.oracle else []
        except Exception as e:  # an oracle must never crash the check silently
            r.problems = ['oracle-exception: %r' % (e,)]
        if r.crash:
            r.problems = ['implementation process crashed or hung: ' + (next(c for c in crashes if c.get('case') == (a, b)).get('stderr') or '')[-600:]] + r.problems
        try:
            r.nontrivial = bool(comp.nontrivial(r.script, r.impl)) if comp.nontrivial else True
        except Exception:
            r.nontrivial = False
        res.append(r)
    return res


def gen_script(ctx, comp, seed, n):
    exe = exe_path('kvharness')
    rc, out, _ = sh([exe, comp.name, 'gen', '-seed', str(seed), '-n', str(n), '-tier', ctx.tier], timeout=300)
    if rc != 0:
        raise RuntimeError('generator failed: ' + out[-300:])
    return [l for l in out.splitlines() if l.strip()]


def derive_seed(seed, *parts):
    h = hashlib.sha256(('%d|' % seed + '|'.join(str(p) for p in parts)).encode()).digest()
    return int.from_bytes(h[:6], 'big')


def corpus_scripts(comp):
    out = []
    for f in sorted(glob.glob(os.path.join(VERIF, 'corpus', comp.name, '*.script'))):
        out.append((os.path.basename(f), read_lines(f)))
    return out


def run_component(ctx, comp, scale=1.0):
    """corpus first, then generated cases in parallel chunks."""
    n_total = int((comp.n_quick if ctx.tier == 'quick' else comp.n_thorough) * scale)
    chunks = max(1, min(NCPU, n_total // max(1, comp.chunk_min)))
    per = max(1, n_total // chunks)
    jobs = []
    for name, lines in corpus_scripts(comp):
        jobs.append(('corpus-' + name, lines))
    for i in range(chunks):
        s = derive_seed(ctx.seed, comp.name, ctx.tier, i, scale)
        jobs.append(('gen-%d' % i, (s, per)))
    results = []
    stat_parts = []

    def work(job):
        tag, payload = job
        if isinstance(payload, tuple):
            script = gen_script(ctx, comp, payload[0], payload[1])
        else:
            script = payload
        impl, model, crashes = exec_script(ctx, comp, script, '%s-%s' % (comp.name, tag), want_model=comp.differential, race=comp.race, env=comp.env, timeout=comp.timeout)
        rs = evaluate(ctx, comp, script, impl, model, crashes)
        if ctx.tier == 'thorough':
            # memory: a thorough run holds 10^5 cases. The distribution statistics are taken per chunk (merged below); cases
            # without a finding then keep only what the evidence samples may show
            if comp.stats:
                try:
                    stat_parts.append(comp.stats(rs))
                except Exception as e:
                    stat_parts.append({'stats-error': repr(e)})
            for r in rs:
                if not r.problems and r.mismatch is None and not r.crash:
                    r.script, r.impl, r.model = r.script[:40], [str(x)[:200] for x in (r.impl or [])[:40]], None
        return rs

    with cf.ThreadPoolExecutor(max_workers=min(NCPU, len(jobs))) as ex:
        for rs in ex.map(work, jobs):
            results.extend(rs)
    st = ctx.cov['components'].setdefault(comp.name, dict(cases=0, nontrivial_distinct=0, mismatches=0, oracle_failures=0, crashes=0))
    for r in results:
        st['cases'] += 1
        ctx.cov['evaluations'] += 1
        if r.mismatch is None and ctx.model_ok and comp.differential:
            ctx.cov['traces_validated_against_impl'] += 1
        key = (comp.name, r.h)
        if r.nontrivial and key not in ctx.seen:
            ctx.seen.add(key)
            st['nontrivial_distinct'] += 1
            ctx.cov['distinct_nontrivial'] += 1
            if len(ctx.cov['samples']) < 4 and len('\n'.join(r.script)) < 1500:
                ctx.cov['samples'].append(dict(component=comp.name, script=r.script[:40], impl=[str(x)[:200] for x in r.impl[:40]]))
        if r.crash:
            st['crashes'] += 1
        if r.problems:
            st['oracle_failures'] += 1
            ctx.cov['oracle_failures'] += 1
        if r.mismatch is not None:
            st['mismatches'] += 1
            ctx.cov['mismatches'] += 1
    if comp.stats:
        try:
            st['distribution'] = merge_stats(stat_parts) if stat_parts else comp.stats([r for r in results])
        except Exception as e:
            st['distribution'] = 'stats-error %r' % (e,)
    return results


def merge_stats(parts):
    """merge per-chunk distribution statistics: numbers add (keys starting with max/min take the max/min), dicts merge
    recursively, lists are concatenated up to 20 items, anything else: first value"""
    out = {}
    for p in parts:
        if not isinstance(p, dict):
            continue
        for k, v in p.items():
            if k not in out or out[k] is None:
                out[k] = v
            elif v is None:
                pass
            elif isinstance(v, bool) or isinstance(out[k], bool):
                out[k] = out[k] or v
            elif isinstance(v, (int, float)) and isinstance(out[k], (int, float)):
                out[k] = max(out[k], v) if str(k).startswith('max') else min(out[k], v) if str(k).startswith('min') else out[k] + v
            elif isinstance(v, dict) and isinstance(out[k], dict):
                out[k] = merge_stats([out[k], v])
            elif isinstance(v, list) and isinstance(out[k], list):
                out[k] = (out[k] + v)[:20]
    return out


# ----------------------------------------------------------------------------------------------------------
# shrink / report
# ----------------------------------------------------------------------------------------------------------

def still_fails(ctx, comp, lines, kind, counter):
    counter[0] += 1
    impl, model, crashes = exec_script(ctx, comp, lines, 'shrink-%d' % counter[0], want_model=(kind == 'mismatch'), race=comp.race, env=comp.env, timeout=min(120, comp.timeout))
    rs = evaluate(ctx, comp, lines, impl, model, crashes)
    if kind == 'oracle':
        return any(r.problems for r in rs)
    return any(r.mismatch is not None for r in rs)


def shrink(ctx, comp, r, kind, budget=120):
    """delta debugging on the op lines of one case (the header lines up to comp.header_lines are kept)."""
    keep = [l for l in r.script if l.startswith('#')][:1]
    ops = [l for l in r.script if not l.startswith('#')]
    head, body = ops[:comp.header_lines], ops[comp.header_lines:]
    counter = [0]
    n = 2
    while len(body) >= 2 and counter[0] < budget:
        size = max(1, len(body) // n)
        reduced = False
        for i in range(0, len(body), size):
            cand = body[:i] + body[i + size:]
            if cand and still_fails(ctx, comp, keep + head + cand, kind, counter):
                body, n, reduced = cand, max(n - 1, 2), True
                break
            if counter[0] >= budget:
                break
        if not reduced:
            if size == 1:
                break
            n = min(len(body), n * 2)
    return keep + head + body


def write_replay(ctx, comp, script, info):
    h = case_hash(script + [json.dumps(info, sort_keys=True)[:200]])
    path = os.path.join(OUT, 'replays', '%s-%s-%s.json' % (ctx.prop.id, comp.name if comp else 'obligation', h))
    os.makedirs(os.path.dirname(path), exist_ok=True)
    with open(path, 'w') as fh:
        json.dump(dict(property=ctx.prop.id, component=comp.name if comp else None, seed=ctx.seed, tier=ctx.tier,
                       script=script, **info), fh, indent=1)
    return path


def load_known():
    out = []
    p = os.path.join(VERIF, 'KNOWN_FINDINGS.txt')
    if os.path.exists(p):
        for l in open(p):
            l = l.strip()
            if l.startswith('finding:'):
                kv = dict(re.findall(r'(\w+)=(\S+)', l))
                kv['text'] = l
                out.append(kv)
    return out


def match_known(ctx, comp, r):
    """A failing case matches a known finding iff the finding is for this property and its predicate accepts it."""
    import findings
    for kf in load_known():
        if kf.get('property') != ctx.prop.id:
            continue
        pred = getattr(findings, kf.get('predicate', ''), None)
        if pred and pred(comp.name, r.script, r.impl, r.problems):
            return kf
    return None


def run_check(prop_id, tier, seed, replay):
    import props
    if prop_id not in props.PROPS:
        print('unknown property', prop_id)
        return 2
    prop = props.PROPS[prop_id]
    ctx = Ctx(prop, tier, seed)
    if replay:
        return do_replay(ctx, replay)
    prepare(ctx)
    failing = []   # (comp, result, kind)
    if ctx.harness_ok:
        for comp in prop.components:
            for r in run_component(ctx, comp):
                if r.problems:
                    failing.append((comp, r, 'oracle'))
                elif r.mismatch is not None:
                    failing.append((comp, r, 'mismatch'))
        if prop.extra:
            prop.extra(ctx)
    # correspondence mismatch without oracle failure = broken tie
    mism = [(c, r) for c, r, k in failing if k == 'mismatch']
    if mism:
        c, r = mism[0]
        ctx.broken.append(('correspondence', 'component %s: model and implementation differ at line %d of case %s: script=%s impl=%s model=%s (%d cases differ)' % (
            c.name, r.mismatch, r.script[0], str(r.script[r.mismatch])[:160], str(r.impl[r.mismatch])[:160], str(r.model[r.mismatch])[:160], len(mism))))
    oracle_fail = [(c, r) for c, r, k in failing if k == 'oracle']
    # step 5: something broke but no concrete failing input yet -> widen the search on the implementation
    if ctx.broken and not oracle_fail and ctx.harness_ok and tier == 'quick':
        ctx.say('obligation/correspondence broken; widening the search for a failing input')
        for comp in prop.components:
            for r in run_component(ctx, comp, scale=4.0):
                if r.problems:
                    oracle_fail.append((comp, r))
            if oracle_fail:
                break
    new_violation = False
    reported = set()
    for comp, r in oracle_fail:
        kf = match_known(ctx, comp, r)
        if kf:
            key = kf.get('key')
            if key not in reported:
                reported.add(key)
                ctx.known.append(kf['text'])
            continue
        sig = (comp.name, r.problems[0][:80])
        if sig in reported:
            continue
        reported.add(sig)
        small = shrink(ctx, comp, r, 'oracle') if comp.shrink else r.script
        impl, model, crashes = exec_script(ctx, comp, small, 'final', want_model=True, race=comp.race, env=comp.env, timeout=comp.timeout)
        rs = evaluate(ctx, comp, small, impl, model, crashes)
        probs = [p for x in rs for p in x.problems] or r.problems
        path = write_replay(ctx, comp, small, dict(kind='oracle', problems=probs[:10], impl=impl, model=model,
                                                   broken=[list(b) for b in ctx.broken][:10]))
        ctx.violations.append(dict(replay=path, note=probs[0][:300]))
        print('VIOLATION property=%s replay=%s' % (prop.id, path), flush=True)
        for pr in probs[:4]:
            print('  detail: %s' % pr[:500], flush=True)
        for l in small[:14]:
            print('  script: %s' % l[:300], flush=True)
        new_violation = True
        if len(ctx.violations) >= 5:
            break
    for kf in ctx.known:
        m = re.match(r'finding:\s*(.*)', kf)
        print('KNOWN-FINDING: %s' % (m.group(1) if m else kf), flush=True)
    if ctx.broken and not new_violation:
        # the property is no longer shown to hold, and no failing input was found
        script = []
        comp = None
        info = dict(kind='obligation', broken=[list(b) for b in ctx.broken][:20])
        if mism:
            comp, r = mism[0]
            script = shrink(ctx, comp, r, 'mismatch') if comp.shrink else r.script
            impl, model, _ = exec_script(ctx, comp, script, 'final', want_model=True, race=comp.race, env=comp.env, timeout=comp.timeout)
            info.update(impl=impl, model=model)
        path = write_replay(ctx, comp, script, info)
        ctx.violations.append(dict(replay=path, note='; '.join('%s: %s' % b for b in ctx.broken)[:600]))
        for b in ctx.broken[:8]:
            ctx.say('BROKEN %s: %s' % (b[0], b[1][:400]))
        print('VIOLATION property=%s replay=%s no-failing-input-found' % (prop.id, path), flush=True)
        new_violation = True
    write_evidence(ctx)
    ctx.say('%s %s: %d obligations, %d evaluations (%d distinct non-trivial), %d known finding(s), %.1fs -> %s' % (
        prop.id, tier, len(ctx.obligations), ctx.cov['evaluations'], ctx.cov['distinct_nontrivial'], len(ctx.known),
        time.time() - ctx.t0, 'VIOLATION' if new_violation else 'ok'))
    return 1 if new_violation else 0


def write_evidence(ctx):
    p = ctx.prop
    obl = ctx.obligations
    cov = dict(ctx.cov)
    cov.update(
        obligations=max(1, len(obl)),
        discharged=sum(1 for o in obl if o['ok']),
        checker_cmd='lake build %s && lake env lean build/audit/%s.lean (#print axioms) ; kvfacts -repo /repo (Gen + expectations) ; kvharness/kvmodel differential' % (p.lean_module, p.id),
        trusted_base=["Lean 4.33 kernel", "axioms: propext, Classical.choice, Quot.sound only (checked per theorem below)",
                      "kvfacts extractor + extract/expect/*.json", "Go harness + Lean driver parsing/printing + this orchestrator"] + p.trusted_base,
        rule=p.rule,
        theorems=[dict(name=o['name'], ok=o['ok'], axioms=o.get('axioms')) for o in obl if o['kind'] == 'theorem'],
        facts=[dict(name=o['name'], ok=o['ok']) for o in obl if o['kind'] != 'theorem'],
        broken=[list(b) for b in ctx.broken],
        known_findings=ctx.known,
        exhaustive=False,
    )
    if not cov['samples']:
        cov['samples'] = [dict(note='no sample small enough to print; see rule')]
    cov['samples'].append(dict(theorems=[o['name'] for o in obl if o['kind'] == 'theorem'][:12]))
    ev = dict(property_id=p.id, tier=ctx.tier, seed=ctx.seed, level='proof', coverage=cov,
              assumptions=p.assumptions, wall_s=round(time.time() - ctx.t0, 2), violations=len(ctx.violations))
    if cov['discharged'] < 1:
        cov['discharged'] = 0
    with open(os.path.join(EVID, p.id + '.json'), 'w') as fh:
        json.dump(ev, fh, indent=1, default=str)


def do_replay(ctx, path):
    with open(path) as fh:
        rp = json.load(fh)
    prepare(ctx)
    comp = next((c for c in ctx.prop.components if c.name == rp.get('component')), None)
    if comp is None or not rp.get('script'):
        print('replay file records a broken obligation, not an input:')
        print(json.dumps(rp.get('broken'), indent=1))
        for b in ctx.broken:
            print('BROKEN NOW %s: %s' % b)
        return 1 if ctx.broken else 0
    impl, model, crashes = exec_script(ctx, comp, rp['script'], 'replay', want_model=True, race=comp.race, env=comp.env, timeout=comp.timeout)
    rs = evaluate(ctx, comp, rp['script'], impl, model, crashes)
    for i, l in enumerate(rp['script']):
        print('%-3d %s' % (i, l[:200]))
        if not l.startswith('#'):
            print('      impl : %s' % str(impl[i])[:300])
            print('      model: %s' % str(model[i])[:300])
    bad = False
    for r in rs:
        for pr in r.problems:
            print('PROBLEM:', pr)
            bad = True
        if r.mismatch is not None:
            print('MISMATCH at line', r.mismatch)
            bad = True
    return 1 if bad else 0
