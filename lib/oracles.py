"""Property oracles evaluated on the IMPLEMENTATION's outputs (independent of the Lean model), non-triviality
rules and distribution statistics, per differential component."""


def _ops(script, impl):
    for s, i in zip(script, impl):
        if s.startswith('#'):
            continue
        yield s.split(), (i or '')


# ------------------------------------------------------------------ wal (C09)

def _norm_hex(h):
    return '' if h in ('=', '-') else h


def wal_oracle(script, impl):
    """Abstract log: every acknowledged append/batch is in the replay, in order, with its sequence number;
    sequence numbers returned are consecutive; 'from n' is the filter of the replay."""
    probs = []
    expect = []     # (op, seq, key, val)
    nxt = None
    poisoned = False   # after a rejected batch the file may contain orphan records (modelled; C03), stop predicting
    for ws, out in _ops(script, impl):
        o = out.split()
        if ws[0] == 'new':
            expect, nxt, poisoned = [], 1, False
        elif ws[0] == 'setnext':
            nxt = max(nxt, int(ws[1]))
        elif poisoned:
            continue
        elif ws[0] == 'append':
            if o[:1] == ['ok']:
                seq = int(o[1])
                if nxt is not None and seq != nxt:
                    probs.append('append returned seq %d, expected %d' % (seq, nxt))
                nxt = seq + 1
                val = '' if ws[1] == '2' else _norm_hex(ws[3])
                expect.append((ws[1], seq, _norm_hex(ws[2]), val))
            elif ws[1] in ('1', '2', '3') and 'overflow' not in out:
                probs.append('valid append rejected: ' + out[:80])
        elif ws[0] == 'batch':
            n = int(ws[1])
            if o[:1] == ['ok']:
                seq = int(o[1])
                if n > 0:
                    if nxt is not None and seq != nxt:
                        probs.append('batch returned seq %d, expected %d' % (seq, nxt))
                    nxt = seq + 1
                    for j in range(n):
                        op, k, v = ws[2 + 3 * j: 5 + 3 * j]
                        expect.append((op, seq, _norm_hex(k), '' if op == '2' else _norm_hex(v)))
            else:
                if n > 0 and 'toolarge' in out:
                    poisoned = True
        elif ws[0] in ('replay', 'from'):
            if o[1:2] != ['ok']:
                probs.append('%s failed on an undamaged log: %s' % (ws[0], out[:80]))
                continue
            got = []
            for e in o[3:]:
                op, seq, k, v = e.split(':')
                got.append((op, int(seq), _norm_hex(k), _norm_hex(v)))
            want = expect if ws[0] == 'replay' else [e for e in expect if e[1] >= int(ws[1])]
            if ws[0] == 'from' and nxt is not None and int(ws[1]) >= nxt:
                want = []
            if got != want:
                d = next((i for i, (a, b) in enumerate(zip(got, want)) if a != b), min(len(got), len(want)))
                probs.append('%s: %d entries, expected %d; first difference at index %d: got %s want %s' % (
                    ' '.join(ws), len(got), len(want), d, str(got[d])[:120] if d < len(got) else None, str(want[d])[:120] if d < len(want) else None))
        elif ws[0] == 'reopen':
            if o[:1] == ['ok'] and nxt is not None and int(o[1]) != nxt:
                probs.append('reopen continues at %s, expected %d' % (o[1], nxt))
    return probs


def wal_nontrivial(script, impl):
    kinds = set(l.split()[0] for l in script if not l.startswith('#'))
    replayed = 0
    for ws, out in _ops(script, impl):
        if ws[0] == 'replay':
            o = out.split()
            if len(o) > 2 and o[2].isdigit():
                replayed = max(replayed, int(o[2]))
    big = any(len(l) > 60000 for l in script)
    return replayed >= 3 and (('batch' in kinds) or ('rotate' in kinds) or ('reopen' in kinds) or big)


def wal_stats(results):
    d = dict(ops={}, fragmented_cases=0, rejected=0, max_replayed=0)
    for r in results:
        if any(len(l) > 60000 for l in r.script):
            d['fragmented_cases'] += 1
        for ws, out in _ops(r.script, r.impl):
            d['ops'][ws[0]] = d['ops'].get(ws[0], 0) + 1
            if out.startswith('err'):
                d['rejected'] += 1
            if ws[0] == 'replay':
                o = out.split()
                if len(o) > 2 and o[2].isdigit():
                    d['max_replayed'] = max(d['max_replayed'], int(o[2]))
    return d


# ------------------------------------------------------------------ sst (C11)

def _parse_triples(ws):
    return [(ws[i], ws[i + 1], int(ws[i + 2])) for i in range(0, len(ws) - 2, 3)]


def _kb(h):
    return b'' if h in ('=', '-') else bytes.fromhex(h)


class _SpecIter:
    """the specification of an ordered iterator over a list of (key, val, seq)"""
    def __init__(self, es):
        self.es, self.pos, self.init = es, None, False
    def first(self):
        self.pos, self.init = (0 if self.es else None), True
    def last(self):
        self.pos, self.init = (len(self.es) - 1 if self.es else None), True
    def seek(self, t):
        self.init = True
        self.pos = next((i for i, e in enumerate(self.es) if _kb(e[0]) >= t), None)
        return self.pos is not None
    def next(self):
        if not self.init:
            self.first()
            return self.pos is not None
        if self.pos is None:
            return False
        self.pos = self.pos + 1 if self.pos + 1 < len(self.es) else None
        return self.pos is not None
    def show(self, ret):
        if self.pos is None:
            return '%s 0 - - 0 0' % ret
        k, v, s = self.es[self.pos]
        return '%s 1 %s %s %d %d' % (ret, k, v, s, 1 if v == '-' else 0)


def sst_oracle(script, impl):
    probs = []
    bes = tes = None
    bit = tit = None
    altered = False
    written = set()
    for ws, out in _ops(script, impl):
        op = ws[0]
        if out.startswith('panic'):
            probs.append('%s: implementation panicked: %s' % (' '.join(ws)[:60], out[:120]))
            continue
        if op == 'bbuild' or op == 'tbuild':
            es = _parse_triples(ws[2:] if op == 'bbuild' else ws[3:])
            asc = all(_kb(a[0]) < _kb(b[0]) for a, b in zip(es, es[1:])) and len(es) > 0
            ok = out.startswith('ok')
            if asc != ok:
                probs.append('%s of %s entry list: %s' % (op, 'an ascending' if asc else 'a non-ascending', out[:40]))
            if op == 'bbuild':
                bes, bit = (es if ok else None), (_SpecIter(es) if ok else None)
            else:
                tes, tit, altered = (es if ok else None), (_SpecIter(es) if ok else None), False
                written = set(es) if ok else set()
            continue
        if op == 'talter':
            altered = True
            if not out.startswith('ok'):
                tit = None
            continue
        if op in ('bfirst', 'blast', 'bnext', 'bseek'):
            if bit is None:
                continue
            if op == 'bfirst':
                bit.first(); want = bit.show('-')
            elif op == 'blast':
                bit.last(); want = bit.show('-')
            elif op == 'bnext':
                r = bit.next(); want = bit.show('1' if r else '0')
            else:
                r = bit.seek(_kb(ws[1])); want = bit.show('1' if r else '0')
            if out != want:
                probs.append('block %s: got "%s" want "%s"' % (' '.join(ws)[:60], out[:120], want[:120]))
                bit = None
            continue
        if tes is None or out == 'closed':
            continue
        if altered:
            # altered file: whatever is returned must have been written (never a different key/value/flag/seq)
            if op == 'tall':
                for e in out.split()[2:]:
                    k, v, s = e.split(':')
                    if (k, v, int(s)) not in written:
                        probs.append('altered table yields an entry that was never written: %s' % e[:100])
                        break
            elif op == 'tget' and out.startswith('found'):
                v = out.split()[1]
                if (ws[1], v) not in set((k, vv) for k, vv, _ in written):
                    probs.append('altered table: get %s returns a value that was never written' % ws[1][:40])
            elif op in ('tfirst', 'tlast', 'tnext', 'tseek'):
                o = out.split()
                if len(o) == 6 and o[1] == '1' and (o[2], o[3], int(o[4])) not in written:
                    probs.append('altered table: iterator shows an entry that was never written: %s' % out[:100])
            continue
        if op == 'tall':
            want = 'ok %d %s' % (len(tes), ' '.join('%s:%s:%d' % e for e in tes))
            if out != want.strip():
                probs.append('full iteration differs from the entries written (%d written): got "%s"' % (len(tes), out[:160]))
        elif op == 'tget':
            m = next((e for e in tes if e[0] == ws[1] or (_kb(e[0]) == _kb(ws[1]))), None)
            want = ('found ' + m[1]) if m else 'nf'
            if out != want:
                probs.append('get %s: got "%s" want "%s"' % (ws[1][:40], out[:80], want[:80]))
        elif op == 'tnew':
            tit = _SpecIter(tes)
        elif op in ('tfirst', 'tlast', 'tnext', 'tseek') and tit is not None:
            if op == 'tfirst':
                tit.first(); want = tit.show('-')
            elif op == 'tlast':
                tit.last(); want = tit.show('-')
            elif op == 'tnext':
                r = tit.next(); want = tit.show('1' if r else '0')
            else:
                r = tit.seek(_kb(ws[1])); want = tit.show('1' if r else '0')
            if out != want:
                probs.append('table %s: got "%s" want "%s"' % (' '.join(ws)[:60], out[:120], want[:120]))
                tit = None
    return probs


def sst_nontrivial(script, impl):
    for ws, out in _ops(script, impl):
        if ws[0] in ('bbuild', 'tbuild') and out.startswith('ok'):
            n = int(ws[1] if ws[0] == 'bbuild' else ws[2])
            if n >= 3:
                return True
    return False


def sst_stats(results):
    d = dict(ops={}, blocks_gt16=0, multi_block_tables=0, tombstones=0, empty_values=0, altered_open_err=0, altered_open_ok=0)
    for r in results:
        for ws, out in _ops(r.script, r.impl):
            d['ops'][ws[0]] = d['ops'].get(ws[0], 0) + 1
            if ws[0] == 'bbuild' and int(ws[1]) > 16:
                d['blocks_gt16'] += 1
            if ws[0] == 'tbuild' and out.startswith('ok') and int(out.split()[1]) > 70000:
                d['multi_block_tables'] += 1
            if ws[0] in ('bbuild', 'tbuild'):
                d['tombstones'] += ws.count('-')
                d['empty_values'] += ws.count('=')
            if ws[0] == 'talter':
                d['altered_open_ok' if out.startswith('ok') else 'altered_open_err'] += 1
    return d


# ------------------------------------------------------------------ engine (C01, C05, C08)

def _triples3(ws):
    return [(ws[i], ws[i + 1], ws[i + 2]) for i in range(0, len(ws) - 2, 3)]


def engine_oracle(script, impl):
    """abstract map + sequence-number discipline + scan specification, on the implementation's outputs"""
    probs = []
    m = {}
    last = 0
    for ws, out in _ops(script, impl):
        op = ws[0]
        if out.startswith('panic') or out.startswith('CRASH'):
            probs.append('%s: %s' % (' '.join(ws)[:60], out[:160]))
            continue
        if op == 'open':
            m, last = {}, 0
            if not out.startswith('ok'):
                probs.append('open failed: ' + out[:120])
        elif op in ('put', 'del', 'batch', 'tx'):
            o = out.split()
            if o[:1] != ['ok']:
                probs.append('%s rejected: %s' % (' '.join(ws)[:60], out[:120]))
                continue
            if op == 'put':
                m[_kb(ws[1])] = _kb(ws[2])
            elif op == 'del':
                m[_kb(ws[1])] = None
            else:
                for d, k, v in _triples3(ws[2:]):
                    m[_kb(k)] = None if d == 'd' else _kb(v)
            seq, nxt = int(o[1]), int(o[2])
            empty = op in ('batch', 'tx') and int(ws[1]) == 0
            if not empty:
                if seq <= last:
                    probs.append('%s stamped %d, not greater than the previous write %d' % (op, seq, last))
                last = max(last, seq)
            if nxt != last + 1 and not empty:
                probs.append('log counter %d after a write stamped %d' % (nxt, seq))
        elif op == 'reopen':
            o = out.split()
            if o[:1] != ['ok']:
                probs.append('reopen failed: ' + out[:160])
                continue
            if int(o[1]) < last or (last > 0 and int(o[2]) != last + 1):
                probs.append('after reopen last_sequence=%s counter=%s, expected %d/%d' % (o[1], o[2], last, last + 1))
        elif op == 'get':
            want = m.get(_kb(ws[1]))
            w = 'nf' if want is None else 'found ' + (want.hex() if want else '=')
            if out != w:
                probs.append('get %s: got "%s" want "%s"' % (ws[1][:40], out[:80], w[:80]))
        elif op == 'scan':
            lo = None if ws[1] == '-' else _kb(ws[1])
            hi = None if ws[2] == '-' else _kb(ws[2])
            want = ['%s:%s' % (k.hex() or '=', (v.hex() or '=')) for k, v in sorted(m.items())
                    if v is not None and (lo is None or k >= lo) and (hi is None or k < hi)]
            w = ('scan %d ' % len(want) + ' '.join(want)).strip()
            if out != w:
                probs.append('scan %s %s: got "%s" want "%s"' % (ws[1][:20], ws[2][:20], out[:140], w[:140]))
    return probs


def engine_nontrivial(script, impl):
    """at least one key overwritten or deleted and later read after data moved out of the active table"""
    moved = False
    written = set()
    rewritten = set()
    for ws, out in _ops(script, impl):
        if ws[0] in ('put', 'del'):
            (rewritten if ws[1] in written else written).add(ws[1])
        if ws[0] in ('flush', 'reopen'):
            moved = True
        if ws[0] == 'dump' and 'ssts=[]' not in out:
            moved = True
        if ws[0] == 'get' and moved and ws[1] in rewritten:
            return True
    return False


def engine_stats(results):
    import re
    d = dict(ops={}, cases_with_sst=0, max_ssts=0, max_walfiles=0, cases_with_imm_after_reopen=0)
    for r in results:
        has = False
        for ws, out in _ops(r.script, r.impl):
            d['ops'][ws[0]] = d['ops'].get(ws[0], 0) + 1
            if ws[0] == 'dump':
                mm = re.search(r'imm=(\d+) walfiles=(\d+) .* ssts=\[([^\]]*)\]', out)
                if mm:
                    n = len([x for x in mm.group(3).split(',') if x])
                    d['max_ssts'] = max(d['max_ssts'], n)
                    d['max_walfiles'] = max(d['max_walfiles'], int(mm.group(2)))
                    has = has or n > 0
                    if int(mm.group(1)) > 0:
                        d['cases_with_imm_after_reopen'] += 1
        d['cases_with_sst'] += 1 if has else 0
    return d
