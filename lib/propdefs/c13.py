from propbase import Comp, Prop, reg
from oracledefs import applier

APPLIER = Comp('applier', n_quick=3200, n_thorough=100000, oracle=applier.applier_oracle, nontrivial=applier.applier_nontrivial,
               stats=applier.applier_stats, chunk_min=100, timeout=900)

from oracledefs import repl
REPL_ONCE = Comp('repl', n_quick=24, n_thorough=96, oracle=repl.repl_once_oracle, nontrivial=repl.repl_once_nontrivial, stats=repl.repl_stats,
                 differential=False, chunk_min=10 ** 6, timeout=1500, shrink=False)

reg(Prop('C13', 'Kevo.Props.C13',
         facts=['facts:applier.*', 'consts:wal.OpTypePut', 'consts:wal.OpTypeDelete', 'consts:wal.OpTypeMerge'],
         components=[APPLIER, REPL_ONCE],
         fact_tags=['applier'],
         rule='component repl (the end-to-end scenarios of C14, implementation only) with the exactly-once observer: the harness wraps the '
              'replica\'s engine and records every replicated operation that was applied successfully; per run of the replica\'s process and '
              'per key that list must be a subsequence of the primary\'s operations in log order (nothing twice, nothing out of order); '
              'class outage cuts the network between replica and primary (a relay closes every connection) while applied entries are '
              'unacknowledged. '
              'component applier: generated delivery schedules against the REAL replication.WALBatchApplier (ApplyEntries, '
              'AcknowledgeUpTo, Reset), the real SerializeWALEntry/DeserializeWALEntry/WALEntryToProto, the real CompressionManager '
              '(zstd, snappy), the real Primary selection (log written through the real WAL, NegativeAcknowledge on a fake stream -> '
              'GetEntriesFrom + 100-entry cut) and, in `engine` cases, the real EngineApplier on a real read-only engine; the replica '
              'wrapper (empty batch, decompress, gap -> Nack from expectedNext, lastAppliedSeq, ack) is mirrored in the harness and '
              'pinned by source facts. A schedule = a primary log + messages built from arbitrary runs of it under duplication, '
              'overlap, reordering, loss, gaps, empty messages, polls (sender rule), reconnects, acknowledgements. Compared line by '
              'line with the Lean model (Kevo.Model.Applier): decision, returned sequence, all counters, selection, applied entries, '
              'engine contents, serialised bytes, deserialisation error classes. Oracle (Python spec, implementation output only): '
              'applied entries = prefix of the log from the start position (in order, no skip, no repeat); reported counters monotone '
              'and never beyond what was applied; the primary selected exactly the first <= 100 entries numbered >= from; engine contents '
              '= primary prefix state; codec round trip. Case mix: 65% valid + 5% cut (>100-entry logs, batches/polls at the limit) + 5% '
              'engine + 5% api (direct ApplyEntries, Reset = new segment) check the property at FULL strength; 10% `shared` use logs with '
              'transactions (entries sharing one number: KF-C13-shared-seq); 5% `faults` inject apply failures, undecodable entries and '
              'messages with holes/repeats (KF-C13-partial-batch); 5% `codec` (serialise/deserialise at the limits, non-genuine wire '
              'entries; differential + round trip only). Non-trivial: >= 2 accepted and >= 1 '
              'rejected message and >= 3 applied entries (codec cases: >= 3 decoded and >= 1 rejected payloads); distinct by script hash.',
         trusted_base=['the replica wrapper (Replica.processEntries*/handleAcknowledgingState/handleSequenceGap are unexported and bound '
                       'to a gRPC client) is mirrored by harness/comp_applier.go `receive`/`ack`; extract/expect/applier.json pins the mirrored lines',
                       'zstd/snappy are external: decompress(compress(x)) = x is assumed in the model and exercised by `deliverz`'],
         assumptions=['the apply callback reports failure without having changed the data (EngineApplier: a failed Put/Delete)',
                      'sequence numbers stay below 2^64-1 (wal.MaxSequenceNumber, C08); the model carries the uint64 wrap-around',
                      'the correspondence between Kevo.Model.Applier and pkg/replication is sampled (differential), not proved']))
