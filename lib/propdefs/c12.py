from propbase import Comp, Prop, reg
from oracledefs import compaction

COMPACTION = Comp('compaction', n_quick=720, n_thorough=40000, oracle=compaction.compaction_oracle,
                  nontrivial=compaction.compaction_nontrivial, stats=compaction.compaction_stats, chunk_min=20, timeout=900)

reg(Prop('C12', 'Kevo.Props.C12', facts=['facts:compaction.*'], components=[COMPACTION], fact_tags=['compaction'],
         rule='component compaction: corpus witnesses first, then random workloads (60-250 ops: put / facade delete / raw batch / '
              'transaction commit / get / range scan / flush / TriggerCompaction / CompactRange / log retirement / reopen / table dump) on the '
              'real EngineFacade with MemTableSize 48-200 B, MaxMemTables 2-4, output cutting after 2/3/5/unbounded entries and CompactionRatio '
              '2/3/10, so that 2-20 overlapping level-0 files and up to 11 deeper levels appear and every selection path runs (level-0 '
              'threshold, promotion, size ratio, range); the same script on Kevo.Model.Compaction. Compared after every call: result, '
              'sequence counters; at every compaction: hook-site trace (outputs finished / inputs marked / inputs deleted), checksums of the '
              'merged directory view before, with inputs and outputs side by side, and after, table list; at every dump: level / file number / '
              'full logical contents of every table in load order; after retire + reopen: full scan and a get of every key. Oracle '
              '(Python, implementation output only): abstract map for every get/scan, directory view unchanged by every compaction '
              '(recomputed from the dumps), tables sorted and duplicate-free, no input deleted before the outputs are complete. '
              '68% of the generated cases (kind=0) stay inside the envelope in which the property must hold at full strength; kinds 1-4 '
              '(8% each) are the marked minority that can reach a known finding. Non-trivial: a compaction that wrote or deleted files, then a '
              'retirement that deleted log files, then a reopen, then a read; distinct by script hash.',
         assumptions=['background flush and compaction are observed at quiescence (TriggerCompaction / CompactRange are synchronous; the '
                      'periodic workers are configured off); concurrency is C06/C07',
                      'the merged stream of the HierarchicalIterator is modelled by its functional meaning (cursor level: C05); byte formats: C09/C11',
                      'keys are non-empty; file time stamps (UnixNano) of successive files are strictly increasing; a level holds at most 12 files '
                      'with the same file number (sort.Slice is then stable; the model orders equal numbers by time stamp)',
                      'log retirement is the oldest-first rule of the harness (an entry is covered if a table holds its key with a sequence '
                      'number >= its own; the newest non-empty log file is kept so that numbering continues); retention driven by replica '
                      'acknowledgement (D28) belongs to C02',
                      'the tracker clock cannot be advanced past the 24 h retention in a differential run; expiry is covered on the model only',
                      'correspondence Kevo.Model.Compaction ~ pkg/compaction + facade wiring is sampled (differential) and pinned by the '
                      'guard-chain translations and call-order facts, not proved'],
         trusted_base=['selection by size ratio uses the byte-exact table encoder of C11 (Kevo.Model.Table) for file sizes']))
