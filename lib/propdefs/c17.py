from propbase import Comp, Prop, reg
from oracledefs import registry, txvis

REGISTRY = Comp('registry', n_quick=640, n_thorough=12000, oracle=registry.registry_oracle, nontrivial=registry.registry_nontrivial,
                stats=registry.registry_stats, differential=False, header_lines=1, chunk_min=8, timeout=900, shrink=False)  # leaks are coin flips: delta debugging on them is unreliable and each attempt waits for deadlines

TXVIS_C17 = Comp('txvis', n_quick=16, n_thorough=200, oracle=txvis.txvis_oracle, nontrivial=txvis.txvis_nontrivial, stats=txvis.txvis_stats,
                 differential=False, chunk_min=2, timeout=900, shrink=False)

from oracledefs import service as _svc
SERVICE_C17 = Comp('service', n_quick=96, n_thorough=1500, oracle=_svc.service_lock_oracle, nontrivial=_svc.service_lock_nontrivial,
                   stats=_svc.service_stats, chunk_min=10, timeout=900, shrink=False)

reg(Prop('C17', 'Kevo.Props.C17',
         facts=['facts:tx.*'],
         components=[REGISTRY, TXVIS_C17, SERVICE_C17],
         fact_tags=['tx:', 'tx.', 'transaction.', 'service.'],
         rule='component service (the request sequences of C19, here judged only for locks): every request that the lock model says cannot wait returns '
              'within 12 s - in particular the write after a streaming scan whose client went away after the first pair (scancancel). '
              'component registry (implementation only): the real RegistryImpl + transaction.Manager (TTLs 25 ms / 60 s injected through '
              'NewManagerWithTTL / NewRegistryWithTTL) + the real KevoServiceServer handlers (BeginTransaction, TxGet, TxPut, TxDelete, '
              'CommitTransaction, RollbackTransaction, CleanupConnection) on a real engine; scripted clients, 2-5 blocks per case: '
              'begin-timeout under contention (lock held by a foreign transaction or by a registered one; 40 ms deadline; a pending '
              'writer also keeps readers out), double finish through the handlers, use of a kept Transaction after the finish, 2-6 '
              'goroutines racing Commit/Rollback on one handle, abandoned handle + CleanupStaleTransactions (explicit and via the '
              'service BeginTransaction), lifetime limit and idle limit, CleanupConnection (own and foreign connection), '
              'GracefulShutdown, TxGet/TxPut/TxDelete with empty and 4097-byte keys; after every block the probe "a fresh read-write '
              'transaction begins within 5 s" and "the manager reports 0 active transactions". Oracle: Python state machine '
              'predicting every answer (lib/oracledefs/registry.py). Non-trivial: a timeout / race / cleanup / shutdown / invalid key '
              'followed by a successful probe; distinct by script hash. Plus component txvis, scenario failcommit: a commit that the storage '
              'layer rejects (an entry larger than one log record, at the first / a middle / the last position of the write set) '
              'must release the write lock (a new read-write transaction begins within 3 s), close the transaction (a second finish '
              'is refused) and leave no trace, now and after a restart.',
         trusted_base=['Python specification lib/oracledefs/registry.py'],
         assumptions=['a client holds at most one transaction at a time (stated by the property)',
                      'calls on one transaction are atomic w.r.t. each other (tx.mu; fact tx.methods.mutex)',
                      'GracefulShutdown: Rollback returns within its 1 s limit (it only waits for tx.mu)',
                      'liveness under fairness (writer_eventually_begins_statement) is stated, not proved; proved: one cleanup pass after '
                      'the lifetimes expired frees the lock when no call is in flight (writer_eventually_begins_partial)',
                      'D22 (CleanupStaleTransactions reads lastActiveTime without tx.mu) is a data race that belongs to C07; this component is not run under -race',
                      'correspondence Kevo.Model.Registry ~ pkg/transaction, pkg/grpc/service: source facts + scripted scenarios, not proved']))
