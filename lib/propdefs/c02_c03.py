from propbase import Comp, Prop, reg
from oracledefs import crash

CRASH = Comp('crash', n_quick=48, n_thorough=1000, oracle=crash.crash_oracle, nontrivial=crash.crash_nontrivial, stats=crash.crash_stats,
             chunk_min=3, timeout=1800, header_lines=1)
_RULE = ('component crash: workloads of 3-12 operations (put/delete/transaction commit/flush/clean reopen; sync modes none/batch/immediate; '
         'memtable sizes that trigger background flushes and log rotation; every 4th workload writes > 64 KB so that the log buffer '
         'overflows and cuts a record) are first run in a child process with the hook trace on (the ordered list of instrumentation '
         'sites = the plan), then once per site k in a child that calls os.Exit at the k-th site (process death: buffered log bytes '
         'lost, no deferred code); the parent reopens the directory and reports the recovered state (live keys digest, last sequence), '
         'then writes two more keys, closes cleanly, reopens and compares. Kevo.Model.Crash predicts the plan and the exact recovered '
         'state for every k (bufio model + log codec + replay); oracle: recovered = state after a prefix of whole writes within '
         '[durable, issued]. Non-trivial: >= 3 distinct recovered states over the kill points of a workload; distinct by script hash.')
_ASSUME = ['process death only: a write(2) that returned is on disk; power loss / filesystem reordering are not produced (modelled by truncation in C10)',
           'kill points are the instrumentation sites (between statements), not inside a system call',
           'correspondence Kevo.Model.Crash ~ implementation is sampled (differential), not proved']

from oracledefs import power
POWER = Comp('power', n_quick=32, n_thorough=600, oracle=power.power_oracle, nontrivial=power.power_nontrivial, stats=power.power_stats,
             chunk_min=2, timeout=1800, header_lines=1)
_POWER_RULE = (' Plus component power (power loss, reconstructed): each workload runs once in a child under strace (openat/write/fsync/'
               'fdatasync/rename/unlink/ftruncate per file, one marker write per acknowledgement); for EVERY acknowledgement the directory '
               'is rebuilt with every file cut to the bytes that had been fsync\'ed by then (the minimal survivor of a power failure), '
               'reopened with the real engine and compared with Kevo.Model.Crash.recoveredPower/syncedAt (synced length of every log '
               'file and recovered state, exactly); oracle: the image opens, holds a prefix of whole writes, with synchronous logging '
               'every acknowledged write, in every mode everything before a clean close or explicit flush; no file is renamed into place '
               'with unsynced data (found D42: MANIFEST renamed unsynced, repaired).')
_POWER_ASSUME = ['power loss: directory operations (create/rename/unlink) are taken as durable and ordered (kevo never syncs a directory); '
                 'file data is durable exactly when fsync\'ed; the adversary is the minimal survivor (synced bytes only) - intermediate '
                 'survivors between synced and written length are covered by the theorem and by C10 truncation, not replayed here',
                 'strace renders the system calls faithfully; if strace cannot attach in the sandbox the component is skipped and the evidence says so']
from oracledefs import walfault as _wf2
WALFAULT_C02 = Comp('walfault', n_quick=24, n_thorough=600, oracle=_wf2.walfault_oracle, nontrivial=_wf2.walfault_nontrivial,
                    stats=_wf2.walfault_stats, chunk_min=4, timeout=1200)
_WF_RULE = (' Plus component walfault (see C10): a log cut at ANY byte offset is a crash image (the kill fell inside a write, or the tail '
            'was not on disk yet) - also a cut exactly at the end of a physical record inside a fragmented entry, and a cut log file that has '
            'reached wal_max_size (recovery does not reuse or cut it); the real engine opened on it holds exactly the complete entries before '
            'the cut, moves no log file aside, and what it acknowledges afterwards is visible at once and after a restart.')
_C02_COMPS = [CRASH] + ([POWER] if power.strace_usable() else []) + [WALFAULT_C02]

reg(Prop('C02', 'Kevo.Props.C02', facts=['facts:wal.*', 'facts:storage.*'], components=_C02_COMPS, fact_tags=['wal', 'storage'],
         rule=_RULE + (_POWER_RULE if POWER in _C02_COMPS else ' (component power SKIPPED: strace unusable here)') + _WF_RULE, assumptions=_ASSUME + _POWER_ASSUME))
from oracledefs import walfault, txvis, engine as _eng
ENGINE_C03 = Comp('engine', n_quick=120, n_thorough=2000, oracle=_eng.engine_oracle, nontrivial=_eng.engine_nontrivial, stats=_eng.engine_stats,
                  chunk_min=10, timeout=900)
TXVIS = Comp('txvis', n_quick=48, n_thorough=400, oracle=txvis.txvis_oracle, nontrivial=txvis.txvis_nontrivial, stats=txvis.txvis_stats,
             differential=False, chunk_min=2, timeout=900, shrink=False)
WALFAULT_C03 = Comp('walfault', n_quick=36, n_thorough=600, oracle=walfault.walfault_c03_oracle, nontrivial=walfault.walfault_nontrivial,
                    stats=walfault.walfault_stats, chunk_min=4, timeout=1200, shrink=False)

reg(Prop('C03', 'Kevo.Props.C03', facts=['facts:wal.*', 'facts:storage.*', 'facts:txbuf.*'], components=[CRASH, WALFAULT_C03, TXVIS, ENGINE_C03], fact_tags=['wal', 'storage'],
         rule=_RULE + ' Plus component walfault with the all-or-nothing-per-batch oracle on every cut offset (torn writes): this is the recorded '
              'finding KF-C03-torn-batch (no batch frame / commit marker in the log format). Plus implementation-only component txvis: plain '
              'readers read the first and the last key of transactions being committed (yield hook between the memtable inserts): '
              'the second read is never older than the first; and scenario failcommit: a commit rejected by the log (an entry larger than '
              'one log record at any position of the write set) leaves no key of the transaction visible now or after a restart, '
              'closes the transaction and frees the write lock (this found D17a, repaired by 685afc8; Lean: rejected_commit_no_trace). Plus component engine (the harness overwrites its key/value buffers after '
              'every tx.Put / tx.Delete: captured at call time; last operation per key wins).', assumptions=_ASSUME))
