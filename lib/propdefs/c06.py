from propbase import Comp, Prop, reg
from oracledefs import lin

LIN = Comp('lin', n_quick=256, n_thorough=2400, oracle=lin.lin_oracle, nontrivial=lin.lin_nontrivial, stats=lin.lin_stats,
           differential=False, chunk_min=8, timeout=1500, shrink=False)

from oracledefs import engine as _eng6
ENGINE_C06 = Comp('engine', n_quick=120, n_thorough=2000, oracle=_eng6.engine_oracle, nontrivial=_eng6.engine_nontrivial, stats=_eng6.engine_stats,
                  chunk_min=10, timeout=900)

reg(Prop('C06', 'Kevo.Props.C06',
         facts=['facts:locks.field.storage.*', 'facts:locks.field.memtable.*', 'facts:locks.field.wal.*', 'facts:locks.order',
                'facts:locks.unpaired', 'facts:locks.excludedEntries', 'facts:locks.rotateWAL.seqHandover',
                'facts:storage.Put.order', 'facts:storage.Delete.order', 'facts:storage.Get.order', 'facts:storage.rotateWAL.order',
                'facts:storage.FlushMemTables.order', 'facts:storage.flushMemTable.order', 'facts:storage.scheduleFlush.order',
                'facts:wal.Append.order', 'facts:wal.syncLocked.order', 'facts:wal.Close.order'],
         components=[LIN, ENGINE_C06],
         fact_tags=['locks', 'storage', 'wal'],
         rule='component lin (implementation only, no model run), three scenario kinds. stress: N = 3..8 goroutines x 60..150 '
              '(thorough: ..500) put/get/delete calls with unique values on 1..5 keys against a REAL EngineFacade with memtables of '
              '200 B .. 2.5 KB (a log rotation and a flush every few writes), optionally a goroutine calling FlushImMemTables every '
              '0.5 ms and one calling TriggerCompaction every 3 ms, GOMAXPROCS 1/2/4/16, sync-immediate and no-sync logs; a seeded '
              'handler at every verifhook site (storage put/get/delete/flush/rotate/scheduleFlush, wal append/sync/close, pool '
              'switch, skiplist insert, sstable finish, compaction) yields or sleeps 0-200 us; recorded: monotonic '
              'invocation/response times and results; checked in-process: (1) linearizability of the history against the per-key '
              'register specification (WGL search with memoisation; failed writes are no-ops; final reads of every key after all '
              'calls returned), (2) the replayed log directory AT FULL STRENGTH: every acknowledged put exactly once with its value, '
              'a failed put nowhere, delete records per key = acknowledged deletes, sequence numbers strictly increasing in log order. '
              'seqrot: 1..4 writers at full speed for 0.5-1 s (thorough 1.5-3 s) against back-to-back FlushImMemTables (about 100 '
              'rotations per second, database on /dev/shm): oracle (2) only. d19 (every 6th scenario): the former D19 schedule made '
              'deterministic with the hooks (writer parked after its record is buffered, rotation parked until the Put returned): the '
              'Put must succeed with exactly one record, or fail without any effect. Non-trivial: >= 100 calls and >= 1 rotation, or '
              'the d19 scenario; distinct by script hash.',
         assumptions=['PARTIAL: the interleaving model (Kevo.Model.ConcStorage) preempts only between the micro-steps it names: it cannot '
                      'exhibit preemption inside a Go statement, weak-memory effects (sequential consistency assumed), real blocking '
                      'times (the 10 ms retry sleeps are a bounded retry count), or panics outside the modelled ones',
                      'the memtable/table layer enters the model through the Store axioms (view preserved by background steps, a write '
                      'sets one key), discharged for the abstract map and for the sequential engine model Kevo.Model.Engine',
                      'correspondence model ~ code: lock-set / lock-order / call-order facts regenerated from the source and compared '
                      'with extract/expect; behaviour sampled by the stress component, not proved',
                      'compaction does not change what a running storage manager reads (it keeps its open readers): C12'],
         trusted_base=['own linearizability checker in harness/comp_lin.go (per-key register, exhaustive search with memoisation)',
                       'time.Since monotonic clock for invocation/response order']))
