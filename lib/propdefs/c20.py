from propbase import Comp, Prop, reg
from oracledefs import config

# one chunk in the quick tier: the generator emits its systematic part (every field x every boundary value) once per chunk
CONFIG = Comp('config', n_quick=450, n_thorough=40000, oracle=config.config_oracle, nontrivial=config.config_nontrivial,
              stats=config.config_stats, header_lines=1, chunk_min=450)

from oracledefs import power
# power loss: the stored configuration must be fsync'ed before the rename publishes it (D42, repaired by 338fc07)
POWER_C20 = Comp('power', n_quick=8, n_thorough=60, oracle=power.power_oracle, nontrivial=power.power_nontrivial, stats=power.power_stats,
                 chunk_min=2, timeout=1800, header_lines=1)

reg(Prop('C20', 'Kevo.Props.C20',
         facts=['consts:config.*', 'facts:config.*'],
         components=[CONFIG] + ([POWER_C20] if power.strace_usable() else []),
         fact_tags=['config'],
         rule='translator: Config.Validate is re-translated into Kevo.Gen.Config.validate on every run and validate_iff (= the '
              'documented constraints) is re-proved against it. component config: the real Validate / SaveManifest / '
              'LoadConfigFromManifest / NewEngineFacade against Kevo.Model.Config, line by line: (systematic) every integer '
              'field of config.Config (found by reflection) at -1,0,1,2,98..101,2^31-1,2^31,2^40,MaxInt64,MinInt64, threshold '
              'pairs around warning<critical<=99, both directory fields empty / ASCII / multi-byte / escaped-by-JSON / nine kinds '
              'of invalid UTF-8, the float by its IEEE bits (NaNs, +-Inf, 1.0 and its two neighbours, 1.0000001, 10, +-0, '
              'denormal, max, exponent-notation values); (random) 1-4 assignments from these pools over defaults or the zero '
              'value, validate/save/load, re-save, then damage: truncation from either end, EVERY proper prefix of the stored '
              'manifest (truncall: load and engine open on each), non-JSON bytes, a decodable but invalid manifest, an unreadable '
              'manifest, a removed manifest; engine open before and after damage over a stored configuration with distinctive '
              'WALDir/SSTDir/MemTableSize (observed: the engine\'s config struct and the directory the log files appear in). '
              'Oracle (Python re-implementation of the documented constraints and defaults): see lib/oracledefs/config.py. '
              'Non-trivial: a successful save followed by a load/open, or a rejection, or damage followed by a load/open; '
              'distinct by script hash. Plus component power (see C02): the database directory rebuilt from the fsync\'ed bytes after '
              'every acknowledgement must open with its stored configuration; no file (MANIFEST) is renamed into place unsynced.',
         trusted_base=['encoding/json is an abstract codec in the theorems (laws: round trip on encodable configurations; no proper '
                       'prefix of an encoded configuration decodes); the executable stand-in goCodec is used only by the driver',
                       'Kevo.Base.GoVal fixes the meaning of the translated operators (IEEE comparisons on NaN/Inf, string = bytes)'],
         assumptions=['int is 64 bits', 'os.Rename is atomic; I/O errors other than an unreadable manifest are not modelled',
                      'the correspondence between Kevo.Model.Config (save/load/openConfig) and the Go functions is pinned by shape '
                      'facts (call order, return lists, branch conditions) and sampled differentially, not proved',
                      'concurrent Update during SaveManifest/Validate is out of scope (see C20 notes: recursive RLock)']))
