from propbase import Comp, Prop, reg
from oracledefs import txconc

# implementation-only (no Lean driver): the executable specification is the serial-order oracle in oracledefs/txconc.py
TXCONC = Comp('txconc', n_quick=6400, n_thorough=120000, oracle=txconc.txconc_oracle, nontrivial=txconc.txconc_nontrivial,
              stats=txconc.txconc_stats, differential=False, header_lines=1, chunk_min=10, timeout=900, shrink=False)
TXCONC_RACE = Comp('txconc_race', n_quick=960, n_thorough=16000, oracle=txconc.txconc_oracle, nontrivial=txconc.txconc_nontrivial,
                   stats=txconc.txconc_stats, differential=False, header_lines=1, chunk_min=4, race=True, timeout=900, shrink=False,
                   env={'GORACE': 'halt_on_error=1 exitcode=66', 'VERIF_KEEP_STDERR': '1'})

reg(Prop('C04', 'Kevo.Props.C04',
         facts=['facts:tx.BeginTransaction.*', 'facts:tx.Commit.*', 'facts:tx.Rollback.*', 'facts:tx.Get.order', 'facts:tx.Put.order',
                'facts:tx.Delete.order', 'facts:tx.NewIterator.sources', 'facts:tx.NewRangeIterator.sources', 'facts:tx.release*',
                'facts:tx.methods.mutex', 'facts:tx.Buffer.Operations.order', 'facts:storage.ApplyBatch.order'],
         components=[TXCONC, TXCONC_RACE],
         fact_tags=['tx:', 'tx.', 'transaction.', 'service.'],
         needs_race=True,
         rule='component txconc (implementation only): 2-8 goroutines on a real engine (temp dir; memtable 512 B .. 1 MB so that '
              'background flushes happen inside some scenarios), each running 1-4 generated transaction bodies (begin read-only/'
              'read-write, gets, range and full scans, puts/deletes incl. empty values, read-modify-write shapes, commit or rollback, '
              'calls after the finish); schedule perturbed by a seeded handler (Gosched / sleeps up to 400 us) at tx.begin.beforeLock, '
              'tx.begin.locked, tx.commit.beforeApply, tx.commit.applied, mgr.batch.afterLog, mgr.batch.entry and between the calls of '
              'a body; recorded per transaction: begin-call clock, lock-acquisition ticket (global atomic counter read in the '
              'tx.begin.locked hook of the acquiring goroutine), finish-return clock, every read with its result, every write, outcome; '
              'initial and final contents. Oracle (Python, independent of harness and model): replay one transaction at a time in '
              'ticket order on an abstract map = identical read results and final contents; ticket order consistent with real time; '
              'closed answers after the finish; histories of <= 6 transactions additionally brute-forced over ALL orders consistent '
              'with real time. The Go harness runs the same replay in-process (verdict line) as a cross-check. A watchdog turns a '
              'hang into `bad hang`. txconc_race = the same under the -race build. Non-trivial: >= 3 transactions, a committed write '
              'read by a later transaction, two overlapping lifetimes; distinct by script hash.',
         trusted_base=['the ticket instrument: verifhook site tx.begin.locked is executed by the goroutine that acquired the lock, after '
                       'the acquisition and before BeginTransaction returns (fact tx.BeginTransaction.lock + hook position in manager.go)',
                       'Python oracle lib/oracledefs/txconc.py (serial replay, brute force)'],
         assumptions=['writes issued outside transactions are not ordered by the lock (stated by the property; witness theorem raw_write_breaks_snapshot_witness)',
                      'iterators obtained from a transaction are consumed before the transaction ends',
                      'storage.ApplyBatch is atomic with respect to transactional readers because they are excluded by the lock; its own atomicity towards raw readers is C03/C06',
                      'the model identifies a blocked Lock()/RLock() with a begin step that has not happened yet; fairness of sync.RWMutex is not verified',
                      'correspondence Kevo.Model.TxLock ~ pkg/transaction: source facts + sampled histories, not proved']))
