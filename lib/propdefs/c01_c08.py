from propbase import Comp, Prop, reg
from oracledefs import engine

ENGINE = Comp('engine', n_quick=320, n_thorough=8000, oracle=engine.engine_oracle, nontrivial=engine.engine_nontrivial, stats=engine.engine_stats,
              chunk_min=10, timeout=900)
_ENGINE_RULE = ('component engine: random programs (10-60 ops) of put/delete/get/raw batch/transaction commit/flush/reopen/range scan '
                'on the real EngineFacade (memtable sizes 64 B .. 1 MB so that data moves between the active table, immutable tables '
                'and SSTables at different moments; background flush awaited) and on Kevo.Model.Engine; compared after every call: result, '
                'storage_last_sequence, WAL next sequence; after every program: replayed log contents, SSTable list and contents (crc), '
                'full scan before and after a reopen, gets of 8 fixed keys; oracle: abstract map + strictly increasing stamps + scan '
                'specification (Python). Non-trivial: a key that was overwritten/deleted is read after a flush or reopen; distinct by script hash.')
_ENGINE_ASSUME = ['background flush is observed only at quiescence (concurrency: C06/C07)',
                  'the byte formats below the logical model are covered by C09 (log) and C11 (tables)',
                  'keys are non-empty; batch entries fit one log record',
                  'correspondence Kevo.Model.Engine ~ pkg/engine is sampled (differential), not proved']

from oracledefs import compaction as _cx
COMPACTION_C01 = Comp('compaction', n_quick=200, n_thorough=6000, oracle=_cx.compaction_oracle, nontrivial=_cx.compaction_nontrivial,
                      stats=_cx.compaction_stats, chunk_min=12, timeout=900)
reg(Prop('C01', 'Kevo.Props.C01', facts=['facts:storage.*'], components=[ENGINE, COMPACTION_C01], fact_tags=['storage', 'memtable'],
         rule=_ENGINE_RULE + ' Plus component compaction (see C12): the same abstract-map oracle on workloads with TriggerCompaction, CompactRange, '
              'retirement of flushed log files and reopen, so that reads are answered by SSTables alone (the two architectural compaction '
              'findings of C12 violate C01 as well and are listed for C01 too).', assumptions=_ENGINE_ASSUME))
from propdefs.c02_c03 import CRASH
from oracledefs import lin as _lin
SEQROT = Comp('seqrot', n_quick=40, n_thorough=400, oracle=_lin.lin_oracle, nontrivial=_lin.lin_nontrivial, stats=_lin.lin_stats,
              differential=False, chunk_min=3, timeout=1500, shrink=False)
from oracledefs import walret as _wr
from oracledefs import applier as _ap
# the last sequence a replica reports (GetLastAppliedSequence, acknowledgements) never decreases: the applier programs of C13
APPLIER_C08 = Comp('applier', n_quick=500, n_thorough=8000, oracle=_ap.applier_monotone_oracle, nontrivial=_ap.applier_nontrivial, stats=_ap.applier_stats, chunk_min=50, timeout=900)
WALRET = Comp('walret', n_quick=200, n_thorough=6000, oracle=_wr.walret_oracle, nontrivial=_wr.walret_nontrivial, stats=_wr.walret_stats)
reg(Prop('C08', 'Kevo.Props.C08', facts=['facts:storage.*', 'facts:wal.AppendBatch.nextSequence', 'facts:locks.rotateWAL.seqHandover', 'facts:retention.*'], components=[ENGINE, CRASH, SEQROT, WALRET, APPLIER_C08], fact_tags=['storage', 'memtable', 'wal'],
         rule=_ENGINE_RULE + ' Plus component crash: after a kill at every instrumentation site the recovered last sequence must be the number of the '
              'last recovered write and later writes continue above it. Plus implementation-only component seqrot (scenario kind of component lin, see C06): '
              '1-4 writers at full speed against back-to-back FlushImMemTables (about 100 log rotations per second); the replayed log directory must '
              'hold every acknowledged write once and its sequence numbers must be strictly increasing in log order (the counter hand-over in '
              'rotateWAL is also pinned by the fact locks.rotateWAL.seqHandover). Plus component walret: the real WAL.ManageRetention (count / age / sequence rules, thresholds at -2..+2 of the highest number written, creation times set through the file names) on directories of 1-6 log files, some empty, against Kevo.Model.Retention (number of files deleted, remaining bytes, replay), then restart and further writes; oracle: the documented policy re-implemented in Python, and whenever only the sequence rule is active with MinSequenceKeep <= the highest number written the restart continues the numbering (C08.retention_keeps_max). Plus component applier (see C13; Lean: C13.reported_monotone): the sequence a replica reports through the replication protocol never decreases under arbitrary delivery schedules (the two C13 findings are listed for that component and reported there).', assumptions=_ENGINE_ASSUME))
