from propbase import Comp, Prop, reg
from oracledefs import service

SERVICE = Comp('service', n_quick=256, n_thorough=6000, oracle=service.service_oracle, nontrivial=service.service_nontrivial,
               stats=service.service_stats, chunk_min=10, timeout=900)

reg(Prop('C19', 'Kevo.Props.C19',
         facts=['facts:api.rpc.*', 'facts:api.svc.*', 'facts:api.facade.*', 'consts:service.*', 'facts:server.*', 'consts:main.maxMessageSize'],
         components=[SERVICE],
         fact_tags=['api'],
         rule='component service: the REAL KevoServiceServer behind an in-process gRPC server on a bufconn listener, driven through the '
              'generated client stubs (so protobuf encoding, streaming and error transport are in the loop), the same request '
              'sequence translated to embedded calls on a second engine, and the model (Kevo.Model.Service + regenerated API table). '
              'Random sequences (15-60 requests) over all 15 RPCs: Get/Put/Delete/BatchWrite (valid, invalid key or unknown type in '
              'the middle), Scan/TxScan with every presence combination of prefix/suffix/start/end and limits (0, small, large, '
              'negative), several transactions open at once and addressed by handle (TxGet/TxPut/TxDelete/TxScan/Commit/Rollback), '
              'unknown, malformed and finished handles, empty and nil values, empty keys; a limits flavour with keys of 0/4095/4096/'
              '4097/8192 bytes on every key-carrying RPC, batches of 999/1000/1001 operations and (thorough tier, transport limit '
              'raised) values of 10 MB / 10 MB + 1; memtable sizes 256 B..1 MB so that data also sits in SSTables. Compared per line: '
              'service response, twin result, state digests around every rejected call; model vs implementation line by line. '
              'Oracle (Python, independent of the model): svc = emb; rejected by validation iff outside the documented limits '
              '(4096 / 10 MB / 1000, known operation type) or handle not open; rejected => digest before = after = abstract map; '
              'Get/TxGet from the abstract map (+ transaction buffer); scans = specified filter; handle dead after commit/rollback. '
              'Non-trivial: >= 1 validation/handle rejection, >= 1 successful write, and a non-empty scan or a successful '
              'operation by handle; distinct by script hash.',
         trusted_base=['bufconn in place of a TCP socket; grpc-go and protobuf-go as shipped in the module cache'],
         assumptions=['a request that would wait for the transaction lock is not executed (reported as `blocked`; C04/C17)',
                      'transaction TTLs (30 s idle) do not expire inside a case',
                      'Compact is outside the equivalence (KF-C19-COMPACT-MARKER); a closed engine is outside it (KF-C19-GET-ERROR-AS-NOTFOUND)',
                      'the shipped server keeps grpc\'s 4 MB message limit (cmd/kevo/server.go): the 10 MB value limit is exercised '
                      'with the limit raised on the harness\'s own grpc.NewServer',
                      'the correspondence Kevo.Model.Service ~ pkg/grpc/service is extracted (guards, constants, loop shape) and '
                      'sampled (differential), not proved']))
