from propbase import Comp, Prop, reg
from oracledefs import replfault

REPLFAULT = Comp('replfault', n_quick=9, n_thorough=27, oracle=replfault.replfault_oracle, nontrivial=replfault.replfault_nontrivial,
                 stats=replfault.replfault_stats, differential=False, chunk_min=10 ** 6, timeout=1500, shrink=False)

from oracledefs import replstream
REPLSTREAM = Comp('replstream', n_quick=21, n_thorough=160, oracle=replstream.replstream_oracle, nontrivial=replstream.replstream_nontrivial,
                  stats=replstream.replstream_stats, differential=False, chunk_min=4, timeout=900, shrink=False)

reg(Prop('C15', 'Kevo.Props.C15',
         facts=['facts:repl.wal.*', 'facts:repl.broadcast.*', 'facts:repl.sendToReplica.*', 'facts:repl.sendUpdated.*', 'facts:repl.getEntries.*', 'facts:repl.register.lock', 'facts:repl.sendInitial.lockOrder', 'facts:repl.resend.lockOrder', 'facts:repl.updateSessionAck.lockOrder', 'facts:repl.status.lockOrder',
                'facts:repl.OnWALEntryWritten.go', 'facts:repl.push.order', 'facts:repl.pushBatch.order', 'facts:repl.storage.*',
                'facts:repl.checkSessions.*', 'facts:repl.DefaultHeartbeatConfig.*', 'facts:repl.GetReplicaInfo.filter',
                'facts:repl.StreamWAL.unregister', 'facts:repl.startPrimary.*', 'facts:repl.ackUpdate.cond', 'facts:wal.Append.order', 'facts:wal.AppendBatch.order'],
         components=[REPLFAULT, REPLSTREAM],
         fact_tags=['repl', 'replication'],
         rule='component replfault (implementation only, one child process per scenario): real primary engine + '
              'replication.Manager(primary) with heartbeat 300 ms / 1.2 s, a healthy real replica, and raw gRPC clients of the '
              'replication stream with injected faults: stall (never calls Recv), noack (reads, never acknowledges), abrupt '
              '(closes the TCP socket with linger 0 after n messages), slow (sleeps between reads), ack (control); class sustained: >= 50 000 '
              'puts next to a healthy replica AND a never-acknowledging reader must complete (D38 repaired). Every '
              'Put / Get / Commit on the primary runs under a 5 s watchdog; the reported topology (Manager.GetNodeInfo) is sampled; '
              'the healthy replica must still converge and be listed. Verdict ok / blocked op=... / notdropped / failed.'
              ' Plus component replstream (implementation only, in process): the real Primary observing a real engine\'s log, '
              'with replication streams attached through fake stream objects (StreamWAL called directly) whose Send fails, or hangs '
              'for a bounded time and then fails, while the stream context is still alive, and with two streams from one listener '
              'address - faults a loopback gRPC connection cannot produce. Classes: pollfail (a lagging reader starts failing on the '
              'polling sender, then client writes arrive), hbfail (a heartbeat Send hangs then fails while writes are broadcast to the '
              'same session), sameaddr (a peer reconnects from the same address, the old stream is torn down afterwards), mixed. '
              'Oracle: every Put / Commit / Get completes (5 s watchdog) and succeeds; a stream whose context was cancelled leaves the '
              'topology; the healthy stream is sent the whole log, stays listed, its acknowledgements are accepted.',
         trusted_base=['the Go scenario harness (comp_repl.go, comp_replstream.go): watchdog, fault clients, fake streams, topology sampling'],
         assumptions=['"normal time" is not expressible: the model distinguishes enabled / never enabled, the scenarios use a 5 s watchdog',
                      'flow control is a parameter (window) in the model; the measured window on loopback is ~180 KB of payload',
                      'a cut or stalled TCP connection below gRPC (no FIN/RST) is exhibited only in process (component replstream: failing / '
                      'hanging Send with a live stream context), not over a real socket']))
