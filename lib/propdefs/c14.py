from propbase import Comp, Prop, reg
from oracledefs import repl

REPL = Comp('repl', n_quick=24, n_thorough=96, oracle=repl.repl_oracle, nontrivial=repl.repl_nontrivial, stats=repl.repl_stats,
            differential=False, chunk_min=10 ** 6, timeout=1500, shrink=False)

reg(Prop('C14', 'Kevo.Props.C14',
         facts=['facts:repl.*', 'consts:replication.State*', 'facts:storage.rotateWAL.order', 'facts:storage.FlushMemTables.order'],
         components=[REPL],
         fact_tags=['repl', 'replication'],
         rule='component repl (implementation only, one child process per scenario, hard timeout): in-process primary engine + '
              'replica engine(s) wired with the REAL replication.Manager (primary and replica mode) over loopback gRPC, back-off '
              '100-300 ms (class prod: exactly the nil configs of cmd/kevo/server.go). Must-pass classes: replica joins after / '
              'before / during the writes, replica restart on its directory, two replicas, single-operation transactions, '
              'production config, one write after the replica caught up (onelate; D35b repaired), a sustained writer next to a '
              'connected replica (sustained; D38 repaired). Known-finding classes: multi-operation transaction (D29), transaction cut '
              'by the 100-entry limit (D29 second clause), flush = log rotation on the primary (D30), expect=clean catch-up (D35) and '
              'push (D31). After the primary is quiet the replica\'s full scan must equal the primary\'s, its applied sequence the '
              'primary\'s last sequence, stable for 1.5 s, within 20 s (30 s thorough). Every primary write runs under a watchdog; a '
              'blocked write is classified from the goroutine dump (any such block is now a violation). Symptoms (reconnects, '
              'decompression errors, refused transitions, gaps at / inside a batch) are counted from the replica\'s own diagnostics; '
              'the verdict names the finding. A scenario is non-trivial if a replica was compared after >= 5 primary sequence '
              'numbers; distinct by script hash.',
         trusted_base=['the Go scenario harness (comp_repl.go): scan comparison, symptom counters, child-process isolation'],
         assumptions=['"within bounded time" is real time: the model proves finitely many fair rounds (ceil(backlog/100)) and the '
                      'scenarios use a generous wall-clock bound on loopback; TCP-level behaviour (half-open connections, '
                      'keep-alive expiry) is not exhibited',
                      'the liveness theorem assumes fresh deliveries recur (Fair); on a stable log object the reconnect cycle '
                      'provides them (fair_round_exists), after a rotation nothing does (stuck_after_flush)',
                      'replica restart and multi-operation transactions are outside the proved part (covered dynamically)',
                      'correspondence Kevo.Model.Repl ~ pkg/replication: pinned source facts + generated transition table + '
                      'end-to-end scenarios whose outcomes the model predicts; not a line-by-line differential']))
