from propbase import Comp, Prop, reg
from oracledefs import wal

WAL = Comp('wal', n_quick=400, n_thorough=12000, oracle=wal.wal_oracle, nontrivial=wal.wal_nontrivial, stats=wal.wal_stats)

reg(Prop('C09', 'Kevo.Props.C09',
         facts=['consts:wal.*', 'facts:wal.*'],
         components=[WAL],
         fact_tags=['wal'],
         rule='component wal: random programs of append/batch/rotate/reopen/replay/from over the real pkg/wal and the Lean '
              'model (Kevo.Model.Wal/WalLog); compared: returned sequence numbers and error classes, the bytes of every log '
              'file, ReplayWALDir and GetEntriesFrom output; sizes at -2..+2 of k*MaxRecordSize, keys spilling over the first '
              'fragment, empty keys/values, unknown op codes, batches beyond the record limit; oracle: replay == appended '
              '(Python spec). A case is non-trivial if it replays >= 3 entries and contains a batch, a rotation/reopen or a '
              'fragmented entry; distinct by script hash.',
         trusted_base=['crc32 treated as an arbitrary function into [0,2^32) in the theorems; the executable CRC-32 is used only by the driver'],
         assumptions=['bufio.Writer/os.File deliver the bytes written (I/O errors not modelled)',
                      'the correspondence between Kevo.Model.Wal and pkg/wal is sampled (differential), not proved']))

