from propbase import Comp, Prop, reg
from oracledefs import wal

WAL = Comp('wal', n_quick=400, n_thorough=12000, oracle=wal.wal_oracle, nontrivial=wal.wal_nontrivial, stats=wal.wal_stats)

from oracledefs import walconc
WALCONC = Comp('walconc', n_quick=24, n_thorough=600, oracle=walconc.walconc_oracle, nontrivial=walconc.walconc_nontrivial, stats=walconc.walconc_stats,
               differential=False, shrink=False)

reg(Prop('C09', 'Kevo.Props.C09',
         facts=['consts:wal.*', 'facts:wal.*'],
         components=[WAL, WALCONC],
         fact_tags=['wal'],
         rule='component walconc (implementation only): 2..8 goroutines append to ONE log at once (single operations up to several fragments, '
              'batches, Sync/GetEntriesFrom callers in between); afterwards the replay must yield every appended operation exactly once, intact, '
              'under the number Append returned, the numbers increasing in file order (the model is sequential: what it ties is the log\'s own '
              'mutex, i.e. that concurrent callers are served as SOME sequence of appends). '
              'component wal: random programs of append/batch/rotate/reopen/replay/from over the real pkg/wal and the Lean '
              'model (Kevo.Model.Wal/WalLog); compared: returned sequence numbers and error classes, the bytes of every log '
              'file, ReplayWALDir and GetEntriesFrom output; sizes at -2..+2 of k*MaxRecordSize, keys spilling over the first '
              'fragment, empty keys/values, unknown op codes, batches beyond the record limit; oracle: replay == appended '
              '(Python spec). A case is non-trivial if it replays >= 3 entries and contains a batch, a rotation/reopen or a '
              'fragmented entry; distinct by script hash.',
         trusted_base=['crc32 treated as an arbitrary function into [0,2^32) in the theorems; the executable CRC-32 is used only by the driver'],
         assumptions=['bufio.Writer/os.File deliver the bytes written (I/O errors not modelled)',
                      'the correspondence between Kevo.Model.Wal and pkg/wal is sampled (differential), not proved']))

