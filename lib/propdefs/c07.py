from propbase import Comp, Prop, reg
from oracledefs import race

RACE = Comp('race', n_quick=8, n_thorough=64, oracle=race.race_oracle, nontrivial=race.race_nontrivial, stats=race.race_stats,
            differential=False, race=True, chunk_min=1, timeout=1500, shrink=False)

reg(Prop('C07', 'Kevo.Props.C07',
         facts=['facts:locks.*'],
         components=[RACE],
         needs_race=True,
         fact_tags=['locks'],
         rule='component race (implementation only, -race build, child process per scenario): 8/12/16 goroutines x 150..250 '
              '(thorough ..800) calls drawn from EVERY public entry point - Put Get Delete IsDeleted GetIterator GetRangeIterator '
              '(iterated) BeginTransaction rw/ro (+Put Get Delete NewIterator NewRangeIterator Commit/Rollback) ApplyBatch '
              'FlushImMemTables TriggerCompaction CompactRange GetStats GetCompactionStats GetWAL IsReadOnly and the transaction '
              'registry Begin/Get/Remove/CleanupConnection/CleanupStaleTransactions - on a real engine with memtables of '
              '300 B .. 2 KB, background flush and compaction running, seeded yields at the verifhook sites; watchdog of 90 s '
              'per call (hang => goroutine dump); GORACE=halt_on_error=0 exitcode=66: every race report is attributed to the '
              'field named on the racing source lines; no field is known racy on the repaired tree: ANY race report, fatal error, panic, hang or '
              'unexpected exit status is a violation. One case per scenario plus the deterministic Close-during-flush scenario '
              '(closeflush: every acknowledged write must be in the log directory when Close returns). Non-trivial: the `other` query of a child that completed >= 500 calls.',
         assumptions=['PARTIAL: decides data-race freedom on the ENUMERATED shared fields and lock-cycle freedom as far as the syntactic '
                      'lock analysis (extract/extract_locks.go) is sound (programs are assumed to conform to the generated tables); '
                      'panics/fatal errors only where modelled',
                      'the model cannot exhibit: preemption inside a Go statement, weak-memory effects (sequential consistency), real '
                      'blocking times, RWMutex writer preference, unlock by another goroutine (the transaction lock is handed over: C17)',
                      'entry points outside the quantifier are excluded from the tables: storage.Manager.RotateWAL/ReloadSSTables (no caller '
                      'in the engine API); Close is included since 3b93c94 (it takes flushMu and mu)',
                      'calls under a lock that the extractor cannot resolve are listed (WAL observers = replication callbacks: C15; '
                      'merged-iterator internals of a single caller) and pinned by expectation'],
         trusted_base=['Go race detector (happens-before, per execution)', 'extract/extract_locks.go (syntactic lock sets, ~1100 lines)']))
