from propbase import Comp, Prop, reg
from oracledefs import iter as it
from propdefs.c01_c08 import ENGINE

ITER = Comp('iter', n_quick=2400, n_thorough=60000, oracle=it.iter_oracle, nontrivial=it.iter_nontrivial, stats=it.iter_stats,
            header_lines=1, chunk_min=50, timeout=600)

reg(Prop('C05', 'Kevo.Props.C05',
         facts=['facts:iter.*'],
         components=[ITER, ENGINE],
         fact_tags=['iter'],
         rule='component iter: 0-3 real memtables (several versions of a key, the first one active, the others immutable), 0-3 real '
              'SSTable files, slice-backed sources with unsorted/duplicate keys (adversarial), keys from a colliding alphabet, '
              'tombstones shadowing older values, empty sources; iterators built by composite.NewHierarchicalIterator, by the real '
              'iterator.Factory (CreateIterator/CreateRangeIterator with the argument order of the storage manager), by a real '
              'transaction (NewIterator/NewRangeIterator over buffered puts/deletes), wrapped in bounded/prefix/suffix iterators; '
              'every SeekToFirst/SeekToLast/Seek/Next result (returned bool, Valid, Key, Value, IsTombstone), full iteration, and '
              'KevoServiceServer.Scan/TxScan for all option combinations (prefix, suffix, both, start/end, limit) compared with '
              'Kevo.Model.Merge; targets and bounds: present, absent, between keys, before the first, after the last, empty '
              'range, start >= end. Oracle (Python specification): merged newest-wins view + overlay + bounds/filters, cursor '
              'semantics (Seek = smallest key >= t, last = greatest), live entries cut at the limit; for unsorted sources only '
              'strict ascent. component engine: range scans after random programs on the real engine (see C01). '
              'Non-trivial: a key stored in several sources/versions and at least one answered query; distinct by script hash.',
         assumptions=['correspondence Kevo.Model.Merge ~ pkg/common/iterator, pkg/engine/iterator, pkg/transaction, pkg/grpc/service is sampled '
                      '(differential) and pinned by the extracted facts (source order, comparison operators, option selection), not proved',
                      'the concurrent clause (scan during writes) is covered only by hier_strictly_ascending (any source contents); see C06/C18',
                      'a scan request that carries a prefix/suffix together with start/end is answered by the filter alone (as coded)',
                      'SSTable and memtable iterators behave as sorted-list cursors (C11 for tables)'],
         trusted_base=['slice-backed iterator of the harness stands in for misbehaving sources']))
