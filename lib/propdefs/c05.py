from propbase import Comp, Prop, reg
from oracledefs import iter as it, scanconc
from propdefs.c01_c08 import ENGINE

ITER = Comp('iter', n_quick=2400, n_thorough=60000, oracle=it.iter_oracle, nontrivial=it.iter_nontrivial, stats=it.iter_stats,
            header_lines=1, chunk_min=50, timeout=600)

SCANCONC = Comp('scanconc', n_quick=96, n_thorough=3000, oracle=scanconc.scanconc_oracle, nontrivial=scanconc.scanconc_nontrivial,
                stats=scanconc.scanconc_stats, differential=False, chunk_min=4, timeout=900, shrink=False)

reg(Prop('C05', 'Kevo.Props.C05',
         facts=['facts:iter.*'],
         components=[ITER, ENGINE, SCANCONC],
         fact_tags=['iter'],
         rule='component iter: 0-3 real memtables (several versions of a key, the first one active, the others immutable), 0-3 real '
              'SSTable files (case kind bigsst: tables of 17-150 entries = several restart intervals, with 600-2500-byte values several '
              'data blocks; targets in the gaps between stored keys, at -3..+1 around multiples of the restart interval), slice-backed sources with unsorted/duplicate keys (adversarial), keys from a colliding alphabet, '
              'tombstones shadowing older values, empty sources; iterators built by composite.NewHierarchicalIterator, by the real '
              'iterator.Factory (CreateIterator/CreateRangeIterator with the argument order of the storage manager), by a real '
              'transaction (NewIterator/NewRangeIterator over buffered puts/deletes), wrapped in bounded/prefix/suffix iterators; '
              'every SeekToFirst/SeekToLast/Seek/Next result (returned bool, Valid, Key, Value, IsTombstone), full iteration, and '
              'KevoServiceServer.Scan/TxScan for all option combinations (prefix, suffix, both, start/end, limit) compared with '
              'Kevo.Model.Merge; targets and bounds: present, absent, between keys, before the first, after the last, empty '
              'range, start >= end. Oracle (Python specification): merged newest-wins view + overlay + bounds/filters, cursor '
              'semantics (Seek = smallest key >= t, last = greatest), live entries cut at the limit; for unsorted sources only '
              'strict ascent. component engine: range scans after random programs on the real engine (see C01). '
              'Non-trivial: a key stored in several sources/versions and at least one answered query; distinct by script hash. '
              'component scanconc (implementation only; concurrent clause): 10-600 stable keys spread over SSTables, immutable and active '
              'memtables; a full / range / read-only-transaction scan is stepped while writers insert runs of 1-6 NEW neighbouring keys '
              'ahead of and behind the cursor, overwrite and delete keys of a separate family, apply batches and flush (deterministically '
              'interleaved in one goroutine, or from 1-4 goroutines): the scan must be strictly ascending, within its bounds, return only '
              'keys that existed or were written, and contain every stable key (not written during the scan) with its value.',
         assumptions=['correspondence Kevo.Model.Merge ~ pkg/common/iterator, pkg/engine/iterator, pkg/transaction, pkg/grpc/service is sampled '
                      '(differential) and pinned by the extracted facts (source order, comparison operators, option selection), not proved',
                      'the concurrent clause (scan during writes): hier_strictly_ascending (any source contents) + the scanconc scenarios; the memtable-level argument is C18',
                      'a scan request that carries a prefix/suffix together with start/end is answered by the filter alone (as coded)',
                      'SSTable and memtable iterators behave as sorted-list cursors (C11 for tables)'],
         trusted_base=['slice-backed iterator of the harness stands in for misbehaving sources']))
