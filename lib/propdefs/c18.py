from propbase import Comp, Prop, reg
from oracledefs import mem, memconc

MEM = Comp('mem', n_quick=3200, n_thorough=30000, oracle=mem.mem_oracle, nontrivial=mem.mem_nontrivial, stats=mem.mem_stats,
           chunk_min=40)
MEMCONC = Comp('memconc', n_quick=320, n_thorough=4000, oracle=memconc.memconc_oracle, nontrivial=memconc.memconc_nontrivial,
               stats=memconc.memconc_stats, differential=False, race=True, chunk_min=8, shrink=False,
               env={'GORACE': 'halt_on_error=1 exitcode=66', 'VERIF_KEEP_STDERR': '1'}, timeout=900)

reg(Prop('C18', 'Kevo.Props.C18',
         facts=['facts:mem18.*', 'consts:memtable.MaxHeight', 'facts:memtable.Insert.order', 'facts:memtable.Pool.Get.order',
                'facts:memtable.SwitchToNewMemTable.order'],
         components=[MEM, MEMCONC],
         fact_tags=['mem18', 'memtable'],
         needs_race=True,
         rule='component mem (differential + specification oracle): scripts of 12..62 operations on the REAL memtable.MemTable, '
              'Iterator, IteratorAdapter and MemTablePool over 1..8 colliding keys: put/del with arbitrary, repeated and '
              'non-monotone sequence numbers (four styles: monotone with ties, range 0..3, arbitrary up to 2^63, descending), '
              'empty and nil values, deletion markers; get/has; SetImmutable and writes after it; iterators created at any '
              'time and used across later writes (snapshot filter, pointer semantics); SeekToFirst/Next/adapter Next/Seek/'
              'SeekToLast; pool put/del/get/switch/GetMemTables with small table sizes (flush-pending rule). Every output line '
              'is compared with Kevo.Model.MemTable (kvmodel mem) and with an independent Python specification. '
              'component memconc (-race build, GORACE=halt_on_error): one writer goroutine + 1..5 readers on one real table; '
              'kinds step (writer paused at every yield site skiplist.insert.level/linkPrev, complete reader operations at each '
              'pause), free (seeded Gosched/sleeps at the sites), storm (Seek against ascending inserts below the target), '
              'immut (SetImmutable while a Put is in flight, lock-free Gets); each observation is checked in-process for '
              'sortedness, ties, phantoms, duplicates, completeness w.r.t. inserts returned before the traversal, Seek landing, '
              'exact Get linearisation, and the final table against the sequential specification. '
              'Non-trivial: mem: >= 3 effective writes with a key written twice and >= 2 reads; memconc: >= 8 inserts and >= 20 '
              'observations; distinct by script hash.',
         trusted_base=['concurrent part is a MODEL-level result (partial): pointer publication abstracted to atomic list splices '
                       '(justified by the call-order facts mem18.Insert.link.body / mem18.Insert.loops), Go atomics assumed '
                       'sequentially consistent; the implementation side is searched (memconc), not proved',
                       'the writer\'s multi-level search is modelled as a per-level count of smaller nodes (no other writer runs: '
                       'MemTable.Put/Delete hold the write lock; fact mem18.Put.order)'],
         assumptions=['sequence numbers are below 2^64-1 (nextSeqNum = seqNum+1 would wrap to 0 = unfiltered; the WAL refuses '
                      'sequence numbers >= MaxUint64-1000000)',
                      'a single writer at a time (MemTable.mu); SetImmutable is not called while a Put is in flight by the pool '
                      '(SwitchToNewMemTable holds the pool write lock) — the harness also tries that window (kind immut)',
                      'correspondence Kevo.Model.MemTable ~ pkg/memtable is sampled (differential), not proved; the comparison '
                      'function and the visibility test are translated from the source and proved equal to the model\'s']))
