from propbase import Comp, Prop, reg
from oracledefs import sst

SST = Comp('sst', n_quick=450, n_thorough=12000, oracle=sst.sst_oracle, nontrivial=sst.sst_nontrivial, stats=sst.sst_stats)

from oracledefs import sstsweep
SSTSWEEP = Comp('sstsweep', n_quick=6, n_thorough=120, oracle=sstsweep.sstsweep_oracle, nontrivial=sstsweep.sstsweep_nontrivial,
                stats=sstsweep.sstsweep_stats, differential=False, chunk_min=1, timeout=1200, shrink=False)

reg(Prop('C11', 'Kevo.Props.C11',
         facts=['consts:block.*', 'consts:footer.*', 'consts:sstable.*', 'facts:sstable.*'],
         components=[SST, SSTSWEEP],
         fact_tags=['sstable', 'block', 'footer', 'bloom'],
         rule='block cache (Kevo.Model.Table Cache.get/Cache.put/getsC; theorems cache_transparent, table_get_cached_spec: for every capacity, '
              'eviction choice and lookup history the cached lookup returns what the uncached one returns): tied by facts sstable.cache.* '
              '(asked for and filled under the offset of the fetched block, stored only after a successful fetch, capacity) and by one '
              'table per run with 130..260 data blocks - more than the cache holds - read by 4000 random lookups (present and absent keys) '
              'and a full iteration (implementation only; cache contents are not compared: Go evicts in map-iteration order, the theorem '
              'quantifies over every choice). '
              'component sstsweep (implementation only): EVERY single-bit alteration of table files with 3..60 entries (1..4 restart points) - open, '
              'full iteration, lookup of every written key: only written entries, no panic, no endless iteration. '
              'component sst: blocks (1..100 entries around the restart interval 15/16/17/31/32/33) and tables (1..380 entries, '
              'values to 9 KB so that several 64 KB blocks are cut, with and without bloom filters) built with the real '
              'block.Builder / sstable.Writer and with Kevo.Model.Block/Table; compared: serialised block bytes (crc), table '
              'file bytes (length + crc with the footer timestamp/checksum zeroed), the measured bloom parameters, every '
              'SeekToFirst/SeekToLast/Seek/Next result (valid,key,value,seq,tombstone) at block and table level, full '
              'iteration, Reader.Get for present/absent/between/before/after targets, rejection of non-ascending input; '
              'oracle: specification iterator over the written list (Python). Non-trivial: >= 3 entries built; distinct by script hash.',
         trusted_base=['xxhash64 and fnv1a64 are arbitrary functions (into [0,2^64)) in the theorems; executable versions only in the driver',
                       'bloom sizing (floating point) is not modelled: the two resulting integers are compared with the running code'],
         assumptions=['os file I/O returns the bytes written', 'correspondence Kevo.Model.Block/Table ~ pkg/sstable is sampled (differential), not proved',
                      'keys are non-empty and at most 65535 bytes, values shorter than 2^32-1 (format limits; excluded points: see DESIGN C11)']))

