from propbase import Comp, Prop, reg
from oracledefs import service, rorace

REPLICA = Comp('replica', n_quick=224, n_thorough=6000, oracle=service.service_oracle, nontrivial=service.replica_nontrivial,
               stats=service.service_stats, chunk_min=10, timeout=900)

RORACE = Comp('rorace', n_quick=48, n_thorough=1500, oracle=rorace.rorace_oracle, nontrivial=rorace.rorace_nontrivial, stats=rorace.rorace_stats,
              differential=False, chunk_min=3, timeout=900, shrink=False)

from oracledefs import repl as _repl
REPL_RO = Comp('repl', n_quick=9, n_thorough=96, oracle=_repl.repl_ro_oracle, nontrivial=_repl.repl_ro_nontrivial, stats=_repl.repl_stats,
               differential=False, chunk_min=10 ** 6, timeout=1500, shrink=False)

reg(Prop('C16', 'Kevo.Props.C16',
         facts=['facts:api.iface.methods', 'facts:api.facade.*', 'facts:api.rpc.*', 'facts:api.svc.*'],
         components=[REPLICA, RORACE, REPL_RO],
         fact_tags=['api'],
         rule='component repl (end-to-end scenarios, first 9 classes incl. stopwrite): a client write sent to a real replica\'s engine is refused while replication runs and after Manager.Stop (the node stays a replica). '
              'component replica (executor = component service, generator weighted to read-only engines): the REAL KevoServiceServer '
              'behind an in-process gRPC server (bufconn, generated client stubs) on engine A, the same requests translated to '
              'embedded calls on a twin engine B, and the model (Kevo.Model.Service with the regenerated API table). Programs: '
              'populate, SetReadOnly(true) (or opened read-only), then every client mutator of the table — rpc Put/Delete/BatchWrite/'
              'Compact, read-write transactions through the service (BeginTransaction(false), TxPut, TxDelete, Commit), facade Put/'
              'Delete/ApplyBatch and BeginTransaction(false)+Put/Delete/Commit called directly — interleaved with '
              'EngineApplier.Apply of replicated put/delete/merge/unknown entries, the *Internal entry points, reads (Get, Scan with '
              'all option combinations, IsDeleted, GetStats), GetNodeInfo for none/disabled/standalone/primary/replica/unknown-mode '
              'managers, a reflection probe calling every exported facade method that is not in the table, and promotion back '
              '(SetReadOnly(false)). Every line carries the service result and the twin result; every rejected call carries the '
              'state digest (count, crc of all live pairs, last sequence) before and after. Oracle (Python, independent of the '
              'model): abstract map; on a read-only engine every client mutator is refused with a read-only error and the data '
              'equals the abstract map before and after, replicated apply is accepted and visible, reads come from the map, '
              'GetNodeInfo = configured role/primary address/engine flag, no unknown exported method or RPC. Non-trivial: on a '
              'read-only engine >= 2 different mutators refused, >= 1 replicated entry applied, >= 1 read answered; distinct by '
              'script hash. Plus implementation-only component rorace: on a read-only engine the replication applier applies 200-1500 '
              'replicated puts/deletes while 1-8 client goroutines keep calling Put, Delete, ApplyBatch and read-write transactions: '
              'no client call is ever accepted, every replicated entry is applied, the final content is exactly the replicated one, '
              'the engine is still read-only.',
         trusted_base=['the rule sets classifyFacade / classifyService of extract/extract_api.go (which calls make a method a client mutator)'],
         assumptions=['the engine is switched to read-only while no read-write transaction is open (Manager.startReplica runs at server '
                      'start): a transaction commits straight on the storage manager, below the facade guard',
                      'lock conflicts are not executed: a call that would wait for the transaction lock is reported as `blocked` (C04/C17)',
                      'replication streams are not started (no network): GetNodeInfo is checked for configured managers, last sequence 0',
                      'the correspondence Kevo.Model.Service ~ pkg/engine facade + pkg/grpc/service is extracted (guards, constants, '
                      'call sets) and sampled (differential), not proved']))
