from propbase import Comp, Prop, reg
from oracledefs import walfault
from propdefs.c02_c03 import CRASH

WALFAULT = Comp('walfault', n_quick=96, n_thorough=3000, oracle=walfault.walfault_oracle, nontrivial=walfault.walfault_nontrivial,
                stats=walfault.walfault_stats, chunk_min=4, timeout=1200)

reg(Prop('C10', 'Kevo.Props.C10', facts=['consts:wal.*', 'facts:wal.*'], components=[WALFAULT, CRASH], fact_tags=['wal'],
         rule='component walfault: logs of 3-10 entries (puts, deletes, batches, values embedding a well-formed record, every 6th with a '
              'fragmented > 32 KB entry; some with older rotated files) built with the real pkg/wal; the newest file is cut at EVERY byte '
              'offset and corrupted at every (quick: every 2nd) byte position with one xor mask; ReplayWALDir status + delivered entries '
              'compared with Kevo.Model.Wal on the same bytes; a real engine is opened on 4 cut offsets and 1 corrupted position per log, '
              'then written to, reopened and compared. Oracle: a cut log replays OK with exactly the complete entries before the cut; a '
              'corrupted log delivers at least everything complete before the damage incl. undamaged older files; engine open succeeds, '
              'moves nothing aside, and keeps writes made after the recovery. Plus component crash (torn tails from process death). '
              'Non-trivial: >= 3 appended operations; distinct by script hash.',
         assumptions=['CRC-32 is treated as an arbitrary function < 2^32 in the theorems; that it DETECTS a given corruption is not assumed by the proved clauses',
                      'single-byte corruption classes only (every position x one mask per log); bursts are not produced',
                      'correspondence Kevo.Model.Wal ~ pkg/wal is sampled (differential), not proved']))
