"""Base classes for per-property configuration. Definitions live in lib/propdefs/*.py (one file per property or group)."""


class Comp:
    def __init__(self, name, n_quick, n_thorough, oracle=None, nontrivial=None, stats=None, differential=True,
                 header_lines=1, chunk_min=10, race=False, env=None, timeout=600, shrink=True):
        self.name, self.n_quick, self.n_thorough = name, n_quick, n_thorough
        self.oracle, self.nontrivial, self.stats = oracle, nontrivial, stats
        self.differential, self.header_lines, self.chunk_min = differential, header_lines, chunk_min
        self.race, self.env, self.timeout, self.shrink = race, env, timeout, shrink


class Prop:
    def __init__(self, id, lean_module, facts, components, rule, trusted_base=(), assumptions=(), fact_tags=(),
                 extra=None, needs_race=False):
        self.id, self.lean_module, self.facts, self.components = id, lean_module, list(facts), list(components)
        self.rule, self.trusted_base, self.assumptions = rule, list(trusted_base), list(assumptions)
        self.fact_tags, self.extra, self.needs_race = list(fact_tags), extra, needs_race


PROPS = {}


def reg(p):
    PROPS[p.id] = p


