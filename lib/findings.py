"""Predicates for KNOWN_FINDINGS.txt entries. Each takes (component, script_lines, impl_lines, problems) and returns
True iff the failing case is an instance of that specific finding (strict: see DESIGN.md 5.2)."""
