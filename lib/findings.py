"""Predicates for KNOWN_FINDINGS.txt entries. Each takes (component, script_lines, impl_lines, problems) and returns
True iff the failing case is an instance of that specific finding (strict: see DESIGN.md 5.2)."""


def kf_c03_torn_batch(component, script, impl, problems):
    """only: the newest log file CUT (truncated, not corrupted) strictly inside the record group of one batch"""
    return component == 'walfault' and bool(problems) and all(p.startswith('torn batch: log cut at byte') for p in problems)


def config_utf8_replaced(component, script, impl, problems):
    """KF-C20-utf8: a string field assigned bytes that are not valid UTF-8 validates, is saved, and loads back with each
    invalid byte replaced by U+FFFD. Matches only if EVERY problem of the case is exactly such a replacement of a value the
    script assigned (any other difference, a rejected save, a failed load ... is not covered)."""
    import re
    from oracledefs import config as C
    if component != 'config' or not problems:
        return False
    assigned = set()
    for l in script:
        w = l.split()
        if len(w) == 3 and w[0] == 'set' and w[2].startswith('s:') and w[2] != 's:=':
            try:
                raw = bytes.fromhex(w[2][2:])
            except ValueError:
                return False
            if not C.go_valid_utf8(raw):
                assigned.add((w[1], w[2][2:]))
    if not assigned:
        return False
    for p in problems:
        m = re.match(re.escape(C.UTF8_TAG) + r' field (\w+) stored=([0-9a-f]+) loaded=([0-9a-f]+) ', p)
        if not m or (m.group(1), m.group(2)) not in assigned:
            return False
        raw = bytes.fromhex(m.group(2))
        if C.go_valid_utf8(raw) or C.go_json_string(raw).hex() != m.group(3):
            return False
    return True


def kf_c18_seek_reload(component, script, impl, problems):
    """C18 / memconc: Iterator.Seek (and the lock-free SkipList.Find) load `current.getNext(0)` a SECOND time after the search
    loop; a node with a smaller key linked in between is then taken as the landing node / candidate. Matches only cases
    whose every problem is a `seek-below-target` or a lock-free `find-missed` verdict of the concurrent harness."""
    if component != 'memconc' or not problems:
        return False
    return all(p.startswith('memconc ') and (': seek-below-target ' in p or ': find-missed ' in p) for p in problems)


# C13 (component applier)
# ---------------------------------------------------------------------------------------------------------------------

def _c13_kinds(problems):
    import re
    return set(m.group(1) for m in (re.match(r'kind=([a-z-]+)', p) for p in problems) if m), \
        [p for p in problems if not p.startswith('kind=')]


def kf_c13_shared_seq(component, script, impl, problems):
    """D29: the log contains a transaction (entries sharing one sequence number) and every deviation comes from the
    applier treating a number as one entry: a batch with two equal numbers is abandoned after its first part was
    applied (re-applied by every retransmission), or one member of the transaction is accepted under the number and the
    others are never accepted (skipped; reported sequence ahead of what was applied). Anything else -> no match."""
    if component != 'applier' or not problems:
        return False
    from oracledefs import applier
    kinds, other = _c13_kinds(problems)
    if other or not kinds <= {'order-repeat', 'order-skip', 'exceeds'}:
        return False
    ex = applier.explain(script, impl)
    return bool(ex['shared'] and not ex['unexplained'] and ex['mech'] and ex['mech'] <= {'shared-group', 'shared-inbatch'})


def kf_c13_partial_batch(component, script, impl, problems):
    """ApplyEntries hands entries to the callback while it is still validating the batch and returns early without
    counting them (hole inside the batch, apply error, undecodable payload): the retransmission applies the counted-for-
    nothing part again. Matches only logs WITHOUT shared numbers whose sole deviation is such a re-application."""
    if component != 'applier' or not problems:
        return False
    from oracledefs import applier
    kinds, other = _c13_kinds(problems)
    if other or not ({'order-repeat'} <= kinds <= {'order-repeat', 'state'}):
        return False
    if 'state' in kinds and not applier.state_follows_applied(script, impl):
        return False
    ex = applier.explain(script, impl)
    return bool(not ex['shared'] and not ex['unexplained'] and ex['mech'] and
                ex['mech'] <= {'partial-gapin', 'partial-applyerr', 'partial-deser'})


# ---- C12 (component compaction): see lib/oracledefs/compaction.py `classify` for the exact conditions -------------------

def kf_c12_tombstone(component, script, impl, problems):
    """KF-C12-TOMBSTONE: a key whose latest write is a delete shows an OLDER value of itself again, and that delete was
    issued inside a transaction or before a restart (so the in-memory tombstone tracker does not know it) and a
    compaction ran after it; at directory level: a marker lay on top before that compaction and an older value after."""
    from oracledefs import compaction
    return component == 'compaction' and compaction.matches_finding(script, impl, problems, 'TOMBSTONE')


def kf_c12_reflush(component, script, impl, problems):
    """KF-C12-REFLUSH: a read returns an OLDER version of the key although a newer write exists, both written before a
    restart R1, and after R1 memtables were flushed (recovered history written again as new level-0 files), then log
    files were retired, then the database was reopened."""
    from oracledefs import compaction
    return component == 'compaction' and compaction.matches_finding(script, impl, problems, 'REFLUSH')


def kf_c12_range(component, script, impl, problems):
    """KF-C12-RANGE: a CompactRange over a partial key range changed the merged view of the directory for a key that is
    held both by a selected file and by a file left untouched (or a later read of that key returns an older version)."""
    from oracledefs import compaction
    return component == 'compaction' and compaction.matches_finding(script, impl, problems, 'RANGE')


# ---- C19 (component service / replica) -----------------------------------------------------------------------------

def _svc_case_marked(script, mark):
    return bool(script) and script[0].startswith('# case') and ('kf=' + mark) in script[0]


def kf_get_error_as_notfound(component, script, impl, problems):
    """KevoServiceServer.Get / TxGet report EVERY engine error as found=false: after the engine was closed the embedded
    call fails with 'engine is closed' / 'storage is closed' while the service answers 'not found'.
    Strict: marked case, a `close` line, and every problem is `svc!=emb` on an `rpc Get` / `rpc TxGet` line with
    svc=nf and emb=err:closed|err:storageclosed."""
    if component not in ('service', 'replica') or not _svc_case_marked(script, 'get-error-as-notfound'):
        return False
    if 'close' not in [l.strip() for l in script] or not problems:
        return False
    for p in problems:
        if '] svc!=emb: rpc Get ' in p or '] svc!=emb: rpc TxGet ' in p:
            if 'svc=nf emb=err:closed' in p or 'svc=nf emb=err:storageclosed' in p:
                continue
        return False
    return True


_MARKER_HEX = '5f5f636f6d706163745f6d61726b65725f5f'


def kf_compact_marker(component, script, impl, problems):
    """KevoServiceServer.Compact(force=true) commits the key '__compact_marker__' = 'force' through a read-write
    transaction: a key the client never wrote appears in reads and scans (and on a replica the request fails with the
    read-only-transaction error although compaction is not a client write).
    Strict: marked case containing `rpc Compact 1`; every problem is on the `rpc Compact 1` line itself, or mentions the
    marker key, or is a dump / GetStats that differs by exactly that one pair (count svc = count emb + 1, size + 23)."""
    import re
    if component not in ('service', 'replica') or not _svc_case_marked(script, 'compact-marker'):
        return False
    if 'rpc Compact 1' not in [l.strip() for l in script] or not problems:
        return False
    for p in problems:
        if ': rpc Compact 1 |' in p:
            continue
        if _MARKER_HEX in p:
            continue
        m = re.search(r'dump svc=(\d+)\.\d+\.\d+ emb=(\d+)\.\d+\.\d+', p)
        if '] dump:' in p and m and int(m.group(1)) == int(m.group(2)) + 1:
            continue
        m = re.search(r'rpc GetStats \| svc=stats:(\d+):(\d+) emb=stats:(\d+):(\d+)', p)
        if m and int(m.group(1)) == int(m.group(3)) + 1 and int(m.group(2)) == int(m.group(4)) + 23:   # the marker pair: 18 + 5 bytes
            continue
        return False
    return True

# C14 / C15 (components repl, replfault). Every predicate requires the scenario class (from the script) AND the symptom
# (from the verdict fields the harness measured) AND that ALL problems of the case are of that one kind.
# ---------------------------------------------------------------------------------------------------------------------

def _repl_kv(line):
    d = {}
    for w in (line or '').split():
        if '=' in w:
            k, v = w.split('=', 1)
            try:
                d[k] = int(v)
            except ValueError:
                d[k] = v
    return d


def _repl_awaits(script, impl):
    """[(script index, replica, verdict word, fields)] for the await lines"""
    out = []
    for i, (s, o) in enumerate(zip(script, impl)):
        if s.startswith('await '):
            o = o or ''
            out.append((i, s.split()[1], (o.split() or [''])[0], _repl_kv(o)))
    return out


def _repl_seq_layout(script):
    """sequence numbers the primary assigns, from the script: (set of numbers carried by a transaction with >= 2
    operations, total). put/del/non-empty tx = one number, burst/burstdel/bgburst n = n numbers."""
    seq, multi = 0, set()
    for l in script:
        ws = l.split()
        if not ws or l.startswith('#'):
            continue
        if ws[0] in ('put', 'del'):
            seq += 1
        elif ws[0] == 'tx':
            n = (len(ws) - 2) // 3
            if n >= 1:
                seq += 1
            if n >= 2:
                multi.add(seq)
        elif ws[0] in ('burst', 'burstdel', 'bgburst'):
            seq += int(ws[1])
    return multi, seq


def _repl_diverged_only(component, script, impl, problems):
    if component != 'repl' or not problems or not all(p.startswith('not-converged:') for p in problems):
        return None
    bad = [f for _, _, v, f in _repl_awaits(script, impl) if v == 'diverged']
    return bad if bad and len(bad) == len(problems) else None


def kf_repl_partial_reapplied(component, script, impl, problems):
    """KF-C13-partial-batch seen end to end: one replicated apply was made to fail once (`failapply`; the replica entered ERROR
    for it); the entries of that batch in front of the failed one had been applied but not counted, and the retransmission
    applied them again. Everything converged; the only problem is that re-application; no transaction in the history."""
    if component != 'repl' or not problems or not all(p.startswith('not-exactly-once:') for p in problems):
        return False
    if not any(l.startswith('failapply ') for l in script):
        return False
    multi, _ = _repl_seq_layout(script)
    aw = _repl_awaits(script, impl)
    return not multi and bool(aw) and all(v == 'converged' for _, _, v, _ in aw) and any(f.get('othererr', 0) >= 1 for _, _, _, f in aw)


def kf_repl_once_shared_seq(component, script, impl, problems):
    """D29 seen from the replica's engine: the history contains a transaction with >= 2 operations (entries sharing one number);
    the batch that contains it is abandoned at the second entry with that number, AFTER the entries in front of it were handed to
    the engine, and every retransmission applies those again: the replica is stuck below the transaction (verdict D29, gaps inside
    batches) and the only other problem is that re-application."""
    if component != 'repl' or not problems or not all(p.startswith('not-exactly-once:') for p in problems):
        return False
    multi, _ = _repl_seq_layout(script)
    bad = [f for _, _, v, f in _repl_awaits(script, impl) if v == 'diverged']
    return bool(multi) and bool(bad) and all(f.get('finding') == 'D29' and f.get('gapin', 0) > 0 and f.get('txat') in multi for f in bad)


def kf_repl_tx_shared_seq(component, script, impl, problems):
    """D29: the history contains a transaction with >= 2 operations; the replica's cursor is stuck below that
    transaction's sequence number, the batch the primary sends for that cursor contains it (txat), and the replica reported
    gaps INSIDE batches; the log object is not stale."""
    bad = _repl_diverged_only(component, script, impl, problems)
    if not bad:
        return False
    multi, _ = _repl_seq_layout(script)
    return bool(multi) and all(
        f.get('finding') == 'D29' and f.get('gapin', 0) > 0 and f.get('txat') in multi and
        f.get('applied', 0) < f['txat'] <= f.get('applied', 0) + 100 and f.get('stale') == 0 and
        f.get('missing', 0) + f.get('wrong', 0) + f.get('extra', 0) > 0 for f in bad)


def kf_repl_tx_cut_by_limit(component, script, impl, problems):
    """D29 second clause: the replica joined AFTER the writes; counting log entries from the start, the first entry of a
    transaction with >= 2 operations is the 100th entry of a message (entry index = 99 mod 100): the replica's applied
    sequence equals the primary's last sequence (it believes it is caught up), no gap was reported, the log object is not
    stale, and only keys are missing/wrong (the rest of that transaction), none extra."""
    bad = _repl_diverged_only(component, script, impl, problems)
    if not bad:
        return False
    entries, cut_seqs, seq, joined = 0, set(), 0, False
    for l in script:
        ws = l.split()
        if not ws or l.startswith('#'):
            continue
        if ws[0] in ('join', 'restart'):
            joined = True
        n_e = n_s = 0
        if ws[0] in ('put', 'del'):
            n_e = n_s = 1
        elif ws[0] in ('burst', 'burstdel', 'bgburst'):
            n_e = n_s = int(ws[1])
        elif ws[0] == 'tx':
            n_e = (len(ws) - 2) // 3
            n_s = 1 if n_e else 0
            if n_e >= 2 and entries % 100 == 99 and not joined:
                cut_seqs.add(seq + 1)
        entries += n_e
        seq += n_s
    return bool(cut_seqs) and all(
        f.get('finding') == 'D29b' and f.get('splitat') in cut_seqs and f.get('applied') == f.get('primseq') and
        f.get('gapin', 0) == 0 and f.get('stale') == 0 and f.get('extra', 0) == 0 and
        1 <= f.get('missing', 0) + f.get('wrong', 0) <= 8 for f in bad)


def kf_repl_log_object_replaced(component, script, impl, problems):
    """D30: the primary flushed (explicit flush or a small memtable) and the log object the replication primary holds is
    stale: its sequence (observed) is frozen below the engine's, at least one rotation happened, the replica's cursor is
    not beyond the frozen sequence + 1, no gap inside a batch."""
    bad = _repl_diverged_only(component, script, impl, problems)
    if not bad:
        return False
    cfg = _repl_kv(next((l for l in script if l.startswith('cfg ')), ''))
    can_rotate = any(l.split()[0] == 'flush' for l in script if l.strip()) or 0 < cfg.get('mem', 0) <= 65536
    return can_rotate and all(
        f.get('finding') == 'D30' and f.get('stale') == 1 and f.get('rot', 0) >= 1 and f.get('observed', 0) < f.get('primseq', 0) and
        f.get('applied', 0) <= f.get('observed', 0) and f.get('gapin', 0) == 0 for f in bad)


def _repl_episodes(component, script, impl, problems):
    if component != 'repl' or not problems or not all(p.startswith('error-episode ') for p in problems):
        return None
    if not any(l.startswith('cfg ') and 'expect=clean' in l for l in script):
        return None
    aw = _repl_awaits(script, impl)
    if not aw or any(v != 'converged' for _, _, v, _ in aw):
        return None
    return set(p.split()[1].rstrip(':') for p in problems)


def kf_repl_selfloop_refused(component, script, impl, problems):
    """D35: a replica catching up from a QUIET primary (no push can occur) converged, but every handled batch ended in the
    refused transition STREAMING_ENTRIES -> STREAMING_ENTRIES (ERROR, back-off, reconnect); the only other error class allowed
    is the table's second refusal WAITING_FOR_DATA -> APPLYING_ENTRIES (data arriving while the replica waits)."""
    kinds = _repl_episodes(component, script, impl, problems)
    if not kinds or 'selfloop' not in kinds or not kinds <= {'selfloop', 'waitappl'}:
        return False
    f = _repl_awaits(script, impl)[-1][3]
    return f.get('selfloop', 0) >= 1 and f.get('connects', 0) >= f.get('selfloop', 0) + 1 and f.get('acks', 1) == 0


def kf_repl_push_flagged_compressed(component, script, impl, problems):
    """D31: writes pushed to a connected idle replica: the replica failed to decompress pushed batches (and got the data only
    through the reconnect that followed); the only other error classes allowed next to it are D35's refused transitions."""
    kinds = _repl_episodes(component, script, impl, problems)
    if not kinds or 'decomp' not in kinds or not kinds <= {'decomp', 'selfloop', 'waitappl'}:
        return False
    idle = next((i for i, l in enumerate(script) if l.startswith('idle ')), None)
    return idle is not None and any(l.split()[0] in ('put', 'del', 'burst') for l in script[idle + 1:])


def kf_replfault_stalled_reader_blocks(component, script, impl, problems):
    """D32: a client that never reads its stream is attached (fault stall, recvd=0) and client operations of the primary
    did not return within the watchdog, the first of them a put whose goroutine is inside Stream.Send (cause=send);
    nothing else is wrong."""
    if component != 'replfault' or not problems or not all(p.startswith('blocked:') for p in problems):
        return False
    stalls = [l.split()[2] for l in script if l.startswith('fault stall ')]
    if not stalls:
        return False
    outs = [(s, o or '') for s, o in zip(script, impl) if (o or '').startswith('blocked ')]
    verdict = next((o or '' for s, o in zip(script, impl) if s.startswith('verdict')), '')
    ops = set(_repl_kv(verdict).get('op', '').split(','))
    return bool(outs) and outs[0][0].startswith('load ') and 'op=put' in outs[0][1] and 'cause=send' in outs[0][1] and \
        ops <= {'put', 'get', 'commit', 'nodeinfo'} and 'put' in ops and all(('%s:stall:recvd=0' % s) in verdict for s in stalls)


def kf_replfault_silent_reader_kept(component, script, impl, problems):
    """D32 second clause: a client that reads every message and never acknowledges (fault noack) is still listed after
    several heartbeat timeouts WHILE the primary kept sending to it inside the observation window (during>0: poll re-sends,
    pushes or keep-alive responses refreshed LastActivity); nothing is blocked, nothing failed."""
    if component != 'replfault' or not problems or not all(p.startswith('notdropped:') for p in problems):
        return False
    noack = set(l.split()[2] for l in script if l.startswith('fault noack '))
    watch = [(s.split()[1], _repl_kv(o or '')) for s, o in zip(script, impl) if s.startswith('watchdrop ') and (o or '').startswith('notdropped ')]
    verdict = next((o or '' for s, o in zip(script, impl) if s.startswith('verdict')), '')
    return bool(watch) and len(watch) == len(problems) and verdict.startswith('notdropped ') and \
        all(n in noack and f.get('during', 0) > 0 for n, f in watch)


