"""Predicates for KNOWN_FINDINGS.txt entries. Each takes (component, script_lines, impl_lines, problems) and returns
True iff the failing case is an instance of that specific finding (strict: see DESIGN.md 5.2)."""


def kf_c03_torn_batch(component, script, impl, problems):
    """only: the newest log file CUT (truncated, not corrupted) strictly inside the record group of one batch"""
    return component == 'walfault' and bool(problems) and all(p.startswith('torn batch: log cut at byte') for p in problems)
