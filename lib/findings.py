"""Predicates for KNOWN_FINDINGS.txt entries. Each takes (component, script_lines, impl_lines, problems) and returns
True iff the failing case is an instance of that specific finding (strict: see DESIGN.md 5.2)."""


def kf_c03_torn_batch(component, script, impl, problems):
    """only: the newest log file CUT (truncated, not corrupted) strictly inside the record group of one batch"""
    return component == 'walfault' and bool(problems) and all(p.startswith('torn batch: log cut at byte') for p in problems)


def config_utf8_replaced(component, script, impl, problems):
    """KF-C20-utf8: a string field assigned bytes that are not valid UTF-8 validates, is saved, and loads back with each
    invalid byte replaced by U+FFFD. Matches only if EVERY problem of the case is exactly such a replacement of a value the
    script assigned (any other difference, a rejected save, a failed load ... is not covered)."""
    import re
    from oracledefs import config as C
    if component != 'config' or not problems:
        return False
    assigned = set()
    for l in script:
        w = l.split()
        if len(w) == 3 and w[0] == 'set' and w[2].startswith('s:') and w[2] != 's:=':
            try:
                raw = bytes.fromhex(w[2][2:])
            except ValueError:
                return False
            if not C.go_valid_utf8(raw):
                assigned.add((w[1], w[2][2:]))
    if not assigned:
        return False
    for p in problems:
        m = re.match(re.escape(C.UTF8_TAG) + r' field (\w+) stored=([0-9a-f]+) loaded=([0-9a-f]+) ', p)
        if not m or (m.group(1), m.group(2)) not in assigned:
            return False
        raw = bytes.fromhex(m.group(2))
        if C.go_valid_utf8(raw) or C.go_json_string(raw).hex() != m.group(3):
            return False
    return True


def kf_c18_seek_reload(component, script, impl, problems):
    """C18 / memconc: Iterator.Seek (and the lock-free SkipList.Find) load `current.getNext(0)` a SECOND time after the search
    loop; a node with a smaller key linked in between is then taken as the landing node / candidate. Matches only cases
    whose every problem is a `seek-below-target` or a lock-free `find-missed` verdict of the concurrent harness."""
    if component != 'memconc' or not problems:
        return False
    return all(p.startswith('memconc ') and (': seek-below-target ' in p or ': find-missed ' in p) for p in problems)


# C13 (component applier)
# ---------------------------------------------------------------------------------------------------------------------

def _c13_kinds(problems):
    import re
    return set(m.group(1) for m in (re.match(r'kind=([a-z-]+)', p) for p in problems) if m), \
        [p for p in problems if not p.startswith('kind=')]


def kf_c13_shared_seq(component, script, impl, problems):
    """D29: the log contains a transaction (entries sharing one sequence number) and every deviation comes from the
    applier treating a number as one entry: a batch with two equal numbers is abandoned after its first part was
    applied (re-applied by every retransmission), or one member of the transaction is accepted under the number and the
    others are never accepted (skipped; reported sequence ahead of what was applied). Anything else -> no match."""
    if component != 'applier' or not problems:
        return False
    from oracledefs import applier
    kinds, other = _c13_kinds(problems)
    if other or not kinds <= {'order-repeat', 'order-skip', 'exceeds'}:
        return False
    ex = applier.explain(script, impl)
    return bool(ex['shared'] and not ex['unexplained'] and ex['mech'] and ex['mech'] <= {'shared-group', 'shared-inbatch'})


def kf_c13_partial_batch(component, script, impl, problems):
    """ApplyEntries hands entries to the callback while it is still validating the batch and returns early without
    counting them (hole inside the batch, apply error, undecodable payload): the retransmission applies the counted-for-
    nothing part again. Matches only logs WITHOUT shared numbers whose sole deviation is such a re-application."""
    if component != 'applier' or not problems:
        return False
    from oracledefs import applier
    kinds, other = _c13_kinds(problems)
    if other or not ({'order-repeat'} <= kinds <= {'order-repeat', 'state'}):
        return False
    if 'state' in kinds and not applier.state_follows_applied(script, impl):
        return False
    ex = applier.explain(script, impl)
    return bool(not ex['shared'] and not ex['unexplained'] and ex['mech'] and
                ex['mech'] <= {'partial-gapin', 'partial-applyerr', 'partial-deser'})


# ---- C12 (component compaction): see lib/oracledefs/compaction.py `classify` for the exact conditions -------------------

def kf_c12_tombstone(component, script, impl, problems):
    """KF-C12-TOMBSTONE: a key whose latest write is a delete shows an OLDER value of itself again, and that delete was
    issued inside a transaction or before a restart (so the in-memory tombstone tracker does not know it) and a
    compaction ran after it; at directory level: a marker lay on top before that compaction and an older value after."""
    from oracledefs import compaction
    return component == 'compaction' and compaction.matches_finding(script, impl, problems, 'TOMBSTONE')


def kf_c12_reflush(component, script, impl, problems):
    """KF-C12-REFLUSH: a read returns an OLDER version of the key although a newer write exists, both written before a
    restart R1, and after R1 memtables were flushed (recovered history written again as new level-0 files), then log
    files were retired, then the database was reopened."""
    from oracledefs import compaction
    return component == 'compaction' and compaction.matches_finding(script, impl, problems, 'REFLUSH')


def kf_c12_range(component, script, impl, problems):
    """KF-C12-RANGE: a CompactRange over a partial key range changed the merged view of the directory for a key that is
    held both by a selected file and by a file left untouched (or a later read of that key returns an older version)."""
    from oracledefs import compaction
    return component == 'compaction' and compaction.matches_finding(script, impl, problems, 'RANGE')


# ---- C19 (component service / replica) -----------------------------------------------------------------------------

def _svc_case_marked(script, mark):
    return bool(script) and script[0].startswith('# case') and ('kf=' + mark) in script[0]


def kf_get_error_as_notfound(component, script, impl, problems):
    """KevoServiceServer.Get / TxGet report EVERY engine error as found=false: after the engine was closed the embedded
    call fails with 'engine is closed' / 'storage is closed' while the service answers 'not found'.
    Strict: marked case, a `close` line, and every problem is `svc!=emb` on an `rpc Get` / `rpc TxGet` line with
    svc=nf and emb=err:closed|err:storageclosed."""
    if component not in ('service', 'replica') or not _svc_case_marked(script, 'get-error-as-notfound'):
        return False
    if 'close' not in [l.strip() for l in script] or not problems:
        return False
    for p in problems:
        if '] svc!=emb: rpc Get ' in p or '] svc!=emb: rpc TxGet ' in p:
            if 'svc=nf emb=err:closed' in p or 'svc=nf emb=err:storageclosed' in p:
                continue
        return False
    return True


_MARKER_HEX = '5f5f636f6d706163745f6d61726b65725f5f'


def kf_compact_marker(component, script, impl, problems):
    """KevoServiceServer.Compact(force=true) commits the key '__compact_marker__' = 'force' through a read-write
    transaction: a key the client never wrote appears in reads and scans (and on a replica the request fails with the
    read-only-transaction error although compaction is not a client write).
    Strict: marked case containing `rpc Compact 1`; every problem is on the `rpc Compact 1` line itself, or mentions the
    marker key, or is a dump / GetStats that differs by exactly that one pair (count svc = count emb + 1, size + 23)."""
    import re
    if component not in ('service', 'replica') or not _svc_case_marked(script, 'compact-marker'):
        return False
    if 'rpc Compact 1' not in [l.strip() for l in script] or not problems:
        return False
    for p in problems:
        if ': rpc Compact 1 |' in p:
            continue
        if _MARKER_HEX in p:
            continue
        m = re.search(r'dump svc=(\d+)\.\d+\.\d+ emb=(\d+)\.\d+\.\d+', p)
        if '] dump:' in p and m and int(m.group(1)) == int(m.group(2)) + 1:
            continue
        m = re.search(r'rpc GetStats \| svc=stats:(\d+):(\d+) emb=stats:(\d+):(\d+)', p)
        if m and int(m.group(1)) == int(m.group(3)) + 1 and int(m.group(2)) == int(m.group(4)) + 23:   # the marker pair: 18 + 5 bytes
            continue
        return False
    return True


def c05_bounded_seektolast(component, script, impl, problems):
    """BoundedIterator.SeekToLast with an end bound that is not a stored key leaves the iterator invalid although
    keys below the bound exist. Matches only: component iter, every problem is exactly that observation (reported by
    the oracle for a `last` that follows a range/bound with such an end), and each such `last` printed `- f - - f`."""
    if component != 'iter' or not problems:
        return False
    if not all(p.startswith('bounded-last-end-absent: SeekToLast with end bound ') for p in problems):
        return False
    lasts = [i for s, i in zip(script, impl) if s.strip() == 'last']
    return sum(1 for i in lasts if i == '- f - - f') >= len(problems)
