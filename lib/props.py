"""Per-property configuration: Lean module, cited facts, differential components, oracles."""
import oracles as O


class Comp:
    def __init__(self, name, n_quick, n_thorough, oracle=None, nontrivial=None, stats=None, differential=True,
                 header_lines=1, chunk_min=10, race=False, env=None, timeout=600, shrink=True):
        self.name, self.n_quick, self.n_thorough = name, n_quick, n_thorough
        self.oracle, self.nontrivial, self.stats = oracle, nontrivial, stats
        self.differential, self.header_lines, self.chunk_min = differential, header_lines, chunk_min
        self.race, self.env, self.timeout, self.shrink = race, env, timeout, shrink


class Prop:
    def __init__(self, id, lean_module, facts, components, rule, trusted_base=(), assumptions=(), fact_tags=(),
                 extra=None, needs_race=False):
        self.id, self.lean_module, self.facts, self.components = id, lean_module, list(facts), list(components)
        self.rule, self.trusted_base, self.assumptions = rule, list(trusted_base), list(assumptions)
        self.fact_tags, self.extra, self.needs_race = list(fact_tags), extra, needs_race


PROPS = {}


def reg(p):
    PROPS[p.id] = p


WAL = Comp('wal', n_quick=400, n_thorough=12000, oracle=O.wal_oracle, nontrivial=O.wal_nontrivial, stats=O.wal_stats)

reg(Prop('C09', 'Kevo.Props.C09',
         facts=['consts:wal.*', 'facts:wal.*'],
         components=[WAL],
         fact_tags=['wal'],
         rule='component wal: random programs of append/batch/rotate/reopen/replay/from over the real pkg/wal and the Lean '
              'model (Kevo.Model.Wal/WalLog); compared: returned sequence numbers and error classes, the bytes of every log '
              'file, ReplayWALDir and GetEntriesFrom output; sizes at -2..+2 of k*MaxRecordSize, keys spilling over the first '
              'fragment, empty keys/values, unknown op codes, batches beyond the record limit; oracle: replay == appended '
              '(Python spec). A case is non-trivial if it replays >= 3 entries and contains a batch, a rotation/reopen or a '
              'fragmented entry; distinct by script hash.',
         trusted_base=['crc32 treated as an arbitrary function into [0,2^32) in the theorems; the executable CRC-32 is used only by the driver'],
         assumptions=['bufio.Writer/os.File deliver the bytes written (I/O errors not modelled)',
                      'the correspondence between Kevo.Model.Wal and pkg/wal is sampled (differential), not proved']))

SST = Comp('sst', n_quick=450, n_thorough=12000, oracle=O.sst_oracle, nontrivial=O.sst_nontrivial, stats=O.sst_stats)

reg(Prop('C11', 'Kevo.Props.C11',
         facts=['consts:block.*', 'consts:footer.*', 'consts:sstable.*', 'facts:sstable.*'],
         components=[SST],
         fact_tags=['sstable', 'block', 'footer', 'bloom'],
         rule='component sst: blocks (1..100 entries around the restart interval 15/16/17/31/32/33) and tables (1..380 entries, '
              'values to 9 KB so that several 64 KB blocks are cut, with and without bloom filters) built with the real '
              'block.Builder / sstable.Writer and with Kevo.Model.Block/Table; compared: serialised block bytes (crc), table '
              'file bytes (length + crc with the footer timestamp/checksum zeroed), the measured bloom parameters, every '
              'SeekToFirst/SeekToLast/Seek/Next result (valid,key,value,seq,tombstone) at block and table level, full '
              'iteration, Reader.Get for present/absent/between/before/after targets, rejection of non-ascending input; '
              'oracle: specification iterator over the written list (Python). Non-trivial: >= 3 entries built; distinct by script hash.',
         trusted_base=['xxhash64 and fnv1a64 are arbitrary functions (into [0,2^64)) in the theorems; executable versions only in the driver',
                       'bloom sizing (floating point) is not modelled: the two resulting integers are compared with the running code'],
         assumptions=['os file I/O returns the bytes written', 'correspondence Kevo.Model.Block/Table ~ pkg/sstable is sampled (differential), not proved',
                      'keys are non-empty and at most 65535 bytes, values shorter than 2^32-1 (format limits; excluded points: see DESIGN C11)']))

ENGINE = Comp('engine', n_quick=320, n_thorough=8000, oracle=O.engine_oracle, nontrivial=O.engine_nontrivial, stats=O.engine_stats,
              chunk_min=10, timeout=900)
_ENGINE_RULE = ('component engine: random programs (10-60 ops) of put/delete/get/raw batch/transaction commit/flush/reopen/range scan '
                'on the real EngineFacade (memtable sizes 64 B .. 1 MB so that data moves between the active table, immutable tables '
                'and SSTables at different moments; background flush awaited) and on Kevo.Model.Engine; compared after every call: result, '
                'storage_last_sequence, WAL next sequence; after every program: replayed log contents, SSTable list and contents (crc), '
                'full scan before and after a reopen, gets of 8 fixed keys; oracle: abstract map + strictly increasing stamps + scan '
                'specification (Python). Non-trivial: a key that was overwritten/deleted is read after a flush or reopen; distinct by script hash.')
_ENGINE_ASSUME = ['background flush is observed only at quiescence (concurrency: C06/C07)',
                  'the byte formats below the logical model are covered by C09 (log) and C11 (tables)',
                  'keys are non-empty; batch entries fit one log record',
                  'correspondence Kevo.Model.Engine ~ pkg/engine is sampled (differential), not proved']

reg(Prop('C01', 'Kevo.Props.C01', facts=['facts:storage.*'], components=[ENGINE], fact_tags=['storage', 'memtable'],
         rule=_ENGINE_RULE, assumptions=_ENGINE_ASSUME))
reg(Prop('C08', 'Kevo.Props.C08', facts=['facts:storage.*'], components=[ENGINE], fact_tags=['storage', 'memtable'],
         rule=_ENGINE_RULE, assumptions=_ENGINE_ASSUME))
