"""Loads every property definition from lib/propdefs/*.py (each calls propbase.reg)."""
import glob, importlib, os
from propbase import PROPS, Comp, Prop, reg

for _f in sorted(glob.glob(os.path.join(os.path.dirname(os.path.abspath(__file__)), 'propdefs', '*.py'))):
    _m = os.path.basename(_f)[:-3]
    if _m != '__init__':
        importlib.import_module('propdefs.' + _m)
