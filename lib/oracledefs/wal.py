"""oracle, non-triviality rule and statistics for component `wal` (C09)"""
from oracledefs.common import *
from oracledefs.common import _ops

def _norm_hex(h):
    return '' if h in ('=', '-') else h


def wal_oracle(script, impl):
    """Abstract log: every acknowledged append/batch is in the replay, in order, with its sequence number;
    sequence numbers returned are consecutive; 'from n' is the filter of the replay."""
    probs = []
    expect = []     # (op, seq, key, val)
    nxt = None
    poisoned = False   # after a rejected batch the file may contain orphan records (modelled; C03), stop predicting
    for ws, out in _ops(script, impl):
        o = out.split()
        if ws[0] == 'new':
            expect, nxt, poisoned = [], 1, False
        elif ws[0] == 'setnext':
            nxt = max(nxt, int(ws[1]))
        elif poisoned:
            continue
        elif ws[0] == 'append':
            if o[:1] == ['ok']:
                seq = int(o[1])
                if nxt is not None and seq != nxt:
                    probs.append('append returned seq %d, expected %d' % (seq, nxt))
                nxt = seq + 1
                val = '' if ws[1] == '2' else _norm_hex(ws[3])
                expect.append((ws[1], seq, _norm_hex(ws[2]), val))
            elif ws[1] in ('1', '2', '3') and 'overflow' not in out:
                probs.append('valid append rejected: ' + out[:80])
        elif ws[0] == 'batch':
            n = int(ws[1])
            if o[:1] == ['ok']:
                seq = int(o[1])
                if n > 0:
                    if nxt is not None and seq != nxt:
                        probs.append('batch returned seq %d, expected %d' % (seq, nxt))
                    nxt = seq + 1
                    for j in range(n):
                        op, k, v = ws[2 + 3 * j: 5 + 3 * j]
                        expect.append((op, seq, _norm_hex(k), '' if op == '2' else _norm_hex(v)))
            else:
                if n > 0 and 'toolarge' in out:
                    poisoned = True
        elif ws[0] in ('replay', 'from'):
            if o[1:2] != ['ok']:
                probs.append('%s failed on an undamaged log: %s' % (ws[0], out[:80]))
                continue
            got = []
            for e in o[3:]:
                op, seq, k, v = e.split(':')
                got.append((op, int(seq), _norm_hex(k), _norm_hex(v)))
            want = expect if ws[0] == 'replay' else [e for e in expect if e[1] >= int(ws[1])]
            if ws[0] == 'from' and nxt is not None and int(ws[1]) >= nxt:
                want = []
            if got != want:
                d = next((i for i, (a, b) in enumerate(zip(got, want)) if a != b), min(len(got), len(want)))
                probs.append('%s: %d entries, expected %d; first difference at index %d: got %s want %s' % (
                    ' '.join(ws), len(got), len(want), d, str(got[d])[:120] if d < len(got) else None, str(want[d])[:120] if d < len(want) else None))
        elif ws[0] == 'reopen':
            if o[:1] == ['ok'] and nxt is not None and int(o[1]) != nxt:
                probs.append('reopen continues at %s, expected %d' % (o[1], nxt))
    return probs


def wal_nontrivial(script, impl):
    kinds = set(l.split()[0] for l in script if not l.startswith('#'))
    replayed = 0
    for ws, out in _ops(script, impl):
        if ws[0] == 'replay':
            o = out.split()
            if len(o) > 2 and o[2].isdigit():
                replayed = max(replayed, int(o[2]))
    big = any(len(l) > 60000 for l in script)
    return replayed >= 3 and (('batch' in kinds) or ('rotate' in kinds) or ('reopen' in kinds) or big)


def wal_stats(results):
    d = dict(ops={}, fragmented_cases=0, rejected=0, max_replayed=0)
    for r in results:
        if any(len(l) > 60000 for l in r.script):
            d['fragmented_cases'] += 1
        for ws, out in _ops(r.script, r.impl):
            d['ops'][ws[0]] = d['ops'].get(ws[0], 0) + 1
            if out.startswith('err'):
                d['rejected'] += 1
            if ws[0] == 'replay':
                o = out.split()
                if len(o) > 2 and o[2].isdigit():
                    d['max_replayed'] = max(d['max_replayed'], int(o[2]))
    return d

