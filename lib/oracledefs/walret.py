"""oracle, non-triviality rule and statistics for component `walret` (C08): WAL.ManageRetention, then restart, then writes.

Specification (the documented policy, re-implemented here independently of the Lean model): the current file is never
deleted; a closed file is deleted iff (count rule) it is not among the newest MaxFileCount-1 closed files, or (age rule) it
is older than MaxAge, or (sequence rule) it holds readable entries and its GREATEST number is below MinSequenceKeep.
C08: every stamp handed out is greater than every stamp handed out before, ALSO after retention + restart — required
whenever only the sequence rule is active and MinSequenceKeep is not above the highest number written (an acknowledged
number is a written number): then the file holding the highest number survives (Lean: C08.retention_keeps_max). With the
age / count rules the highest number can be deleted together with its file (reported, not a violation of this check:
C08.age_rule_can_lose_max_witness); the oracle then only follows what is left."""
from oracledefs.common import _ops


def _kv(ws):
    d = {}
    for w in ws:
        if '=' in w:
            k, v = w.split('=', 1)
            d[k] = v
    return d


def walret_oracle(script, impl):
    probs = []
    files = [[]]          # per file: list of sequence numbers (oldest first, current last)
    nxt, top, must_hold = 1, 0, True
    for ws, out in _ops(script, impl):
        o = out.split()
        if ws[0] == 'new':
            files, nxt, top, must_hold = [[]], 1, 0, True
        elif ws[0] == 'setnext':
            nxt = max(nxt, int(ws[1]))
        elif ws[0] in ('append', 'batch'):
            if o[:1] != ['ok']:
                probs.append('%s rejected: %s' % (ws[0], out[:60]))
                continue
            seq = int(o[1])
            if seq <= top and must_hold:
                probs.append('stamp %d is not greater than the earlier stamp %d (after retention and restart)' % (seq, top))
            if seq != nxt and must_hold:
                probs.append('%s returned %d, expected %d' % (ws[0], seq, nxt))
            n = 1 if ws[0] == 'append' else int(ws[1])
            files[-1].extend([seq] * n)
            top = max(top, seq)
            nxt = seq + 1
        elif ws[0] == 'rotate':
            files.append([])
        elif ws[0] == 'reopen':
            if o[:1] == ['ok']:
                got = int(o[1])
                left = max([s for f in files for s in f], default=0)
                if got != max(1, left + 1):
                    probs.append('restart continues at %d, the directory holds numbers up to %d' % (got, left))
                if must_hold and got != max(1, top + 1):
                    probs.append('restart continues at %d although the highest number handed out is %d (only the sequence rule was used, '
                                 'MinSequenceKeep <= highest number): the counter was lost with a deleted file' % (got, top))
                nxt = got
        elif ws[0] == 'retain':
            kv = _kv(ws[1:])
            count, maxage, minseq = int(kv['count']), int(kv['maxage']), int(kv['minseq'])
            ages = [int(x) for x in kv['ages'].split(',') if x]
            closed = files[:-1]
            ages += [0] * (len(closed) - len(ages))      # a shrunk script may name fewer ages than there are files (the harness uses 0)
            if len(files) <= 1:
                want = []
            else:
                want = []
                order = sorted(range(len(closed)), key=lambda i: -ages[i])     # oldest first
                for i, f in enumerate(closed):
                    d = False
                    if count > 0:
                        keep = count - 1
                        if keep <= 0:
                            d = True
                        elif len(closed) > keep and order.index(i) < len(closed) - keep:
                            d = True
                    if maxage > 0 and ages[i] > maxage:
                        d = True
                    if minseq > 0 and f and max(f) < minseq:
                        d = True
                    want.append(d)
            if o[:1] != ['retained'] or not o[1].isdigit():
                probs.append('retention failed: ' + out[:60])
                continue
            if int(o[1]) != sum(want):
                probs.append('retention deleted %s files, the documented policy deletes %d (%s)' % (o[1], sum(want), ' '.join(ws)[:80]))
            if count > 0 or maxage > 0 or minseq > top:
                must_hold = False        # outside the envelope of the theorem: follow what is left
            files = [f for f, d in zip(closed, want) if not d] + [files[-1]] if len(files) > 1 else files
        elif ws[0] == 'replay':
            if o[1:2] != ['ok']:
                probs.append('replay failed: ' + out[:60])
                continue
            got = [int(e.split(':')[1]) for e in o[3:]]
            want = [s for f in files for s in f]
            if got != want:
                probs.append('replay after retention: numbers %s, expected %s' % (got[:12], want[:12]))
    return probs


def walret_nontrivial(script, impl):
    return any((i or '').startswith('retained ') and (i or '').split()[1] not in ('0', 'err') for i in impl)


def walret_stats(results):
    d = dict(cases=0, retentions=0, files_deleted=0, seq_rule_only=0, counter_lost_outside_envelope=0)
    for r in results:
        d['cases'] += 1
        for ws, out in _ops(r.script, r.impl):
            if ws[0] == 'retain':
                d['retentions'] += 1
                kv = _kv(ws[1:])
                if kv.get('count') == '0' and kv.get('maxage') == '0':
                    d['seq_rule_only'] += 1
                o = out.split()
                if len(o) > 1 and o[1].isdigit():
                    d['files_deleted'] += int(o[1])
    return d
