"""oracle, non-triviality rule and statistics for component `engine` (C01, C05, C08)"""
from oracledefs.common import *
from oracledefs.common import _ops, _kb

def _triples3(ws):
    return [(ws[i], ws[i + 1], ws[i + 2]) for i in range(0, len(ws) - 2, 3)]


def engine_oracle(script, impl):
    """abstract map + sequence-number discipline + scan specification, on the implementation's outputs"""
    probs = []
    m = {}
    last = 0
    for ws, out in _ops(script, impl):
        op = ws[0]
        if out.startswith('panic') or out.startswith('CRASH'):
            probs.append('%s: %s' % (' '.join(ws)[:60], out[:160]))
            continue
        if op == 'open':
            m, last = {}, 0
            if not out.startswith('ok'):
                probs.append('open failed: ' + out[:120])
        elif op in ('put', 'del', 'batch', 'tx'):
            o = out.split()
            if o[:1] != ['ok']:
                probs.append('%s rejected: %s' % (' '.join(ws)[:60], out[:120]))
                continue
            if op == 'put':
                m[_kb(ws[1])] = _kb(ws[2])
            elif op == 'del':
                m[_kb(ws[1])] = None
            else:
                for d, k, v in _triples3(ws[2:]):
                    m[_kb(k)] = None if d == 'd' else _kb(v)
            seq, nxt = int(o[1]), int(o[2])
            empty = op in ('batch', 'tx') and int(ws[1]) == 0
            if not empty:
                if seq <= last:
                    probs.append('%s stamped %d, not greater than the previous write %d' % (op, seq, last))
                last = max(last, seq)
            if nxt != last + 1 and not empty:
                probs.append('log counter %d after a write stamped %d' % (nxt, seq))
        elif op == 'reopen':
            o = out.split()
            if o[:1] != ['ok']:
                probs.append('reopen failed: ' + out[:160])
                continue
            if int(o[1]) < last or (last > 0 and int(o[2]) != last + 1):
                probs.append('after reopen last_sequence=%s counter=%s, expected %d/%d' % (o[1], o[2], last, last + 1))
        elif op == 'get':
            want = m.get(_kb(ws[1]))
            w = 'nf' if want is None else 'found ' + (want.hex() if want else '=')
            if out != w:
                probs.append('get %s: got "%s" want "%s"' % (ws[1][:40], out[:80], w[:80]))
        elif op == 'scan':
            lo = None if ws[1] == '-' else _kb(ws[1])
            hi = None if ws[2] == '-' else _kb(ws[2])
            want = ['%s:%s' % (k.hex() or '=', (v.hex() or '=')) for k, v in sorted(m.items())
                    if v is not None and (lo is None or k >= lo) and (hi is None or k < hi)]
            w = ('scan %d ' % len(want) + ' '.join(want)).strip()
            if out != w:
                probs.append('scan %s %s: got "%s" want "%s"' % (ws[1][:20], ws[2][:20], out[:140], w[:140]))
    return probs


def engine_nontrivial(script, impl):
    """at least one key overwritten or deleted and later read after data moved out of the active table"""
    moved = False
    written = set()
    rewritten = set()
    for ws, out in _ops(script, impl):
        if ws[0] in ('put', 'del'):
            (rewritten if ws[1] in written else written).add(ws[1])
        if ws[0] in ('flush', 'reopen'):
            moved = True
        if ws[0] == 'dump' and 'ssts=[]' not in out:
            moved = True
        if ws[0] == 'get' and moved and ws[1] in rewritten:
            return True
    return False


def engine_stats(results):
    import re
    d = dict(ops={}, cases_with_sst=0, max_ssts=0, max_walfiles=0, cases_with_imm_after_reopen=0)
    for r in results:
        has = False
        for ws, out in _ops(r.script, r.impl):
            d['ops'][ws[0]] = d['ops'].get(ws[0], 0) + 1
            if ws[0] == 'dump':
                mm = re.search(r'imm=(\d+) walfiles=(\d+) .* ssts=\[([^\]]*)\]', out)
                if mm:
                    n = len([x for x in mm.group(3).split(',') if x])
                    d['max_ssts'] = max(d['max_ssts'], n)
                    d['max_walfiles'] = max(d['max_walfiles'], int(mm.group(2)))
                    has = has or n > 0
                    if int(mm.group(1)) > 0:
                        d['cases_with_imm_after_reopen'] += 1
        d['cases_with_sst'] += 1 if has else 0
    return d
