"""oracle for component `txvis` (C03 visibility clause, implementation-only)"""
from oracledefs.common import _ops


def txvis_oracle(script, impl):
    probs = []
    for ws, out in _ops(script, impl):
        if ws[0] in ('vis', 'failcommit') and not out.startswith('ok'):
            probs.append('%s: %s' % (' '.join(ws), out[:300]))
    return probs


def txvis_nontrivial(script, impl):
    for ws, out in _ops(script, impl):
        if out.startswith('ok reads='):
            return int(out.split()[1].split('=')[1]) >= 100
        if out.startswith('ok failed=true'):
            return True
    return False


def txvis_stats(results):
    d = dict(scenarios=0, reads=0)
    for r in results:
        for ws, out in _ops(r.script, r.impl):
            d['scenarios'] += 1
            if out.startswith('ok reads='):
                d['reads'] += int(out.split()[1].split('=')[1])
    return d
