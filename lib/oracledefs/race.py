"""oracle, non-triviality rule and statistics for component `race` (C07): verdicts of the child process that mixes every
public entry point under the race detector (implementation-only component)."""
import re
from oracledefs.common import _ops


def race_oracle(script, impl):
    """no race report on the queried field, and (field=other) no other race, fatal error, panic, hang or bad exit"""
    probs = []
    for ws, out in _ops(script, impl):
        if not (out == 'ok' or out.startswith('ok ')):
            kv = dict(w.split('=', 1) for w in ws[1:] if '=' in w)
            probs.append('field=%s: %s' % (kv.get('field'), out[:1500]))
    return probs


def race_nontrivial(script, impl):
    """the `other` query of a scenario whose child completed >= 500 calls"""
    for ws, out in _ops(script, impl):
        m = re.search(r'ops=(\d+)', out)
        if 'field=other' in ws and m and int(m.group(1)) >= 500:
            return True
    return False


def race_stats(results):
    st = dict(scenarios=0, calls=0, race_verdicts=0, bad=0, hook_sites_hit=0)
    for r in results:
        for ws, out in _ops(r.script, r.impl):
            if 'field=other' in ws:
                st['scenarios'] += 1
                m = re.search(r'ops=(\d+) .*sites=(\d+)', out)
                if m:
                    st['calls'] += int(m.group(1))
                    st['hook_sites_hit'] = max(st['hook_sites_hit'], int(m.group(2)))
            if out.startswith('race '):
                st['race_verdicts'] += 1
            if out.startswith('bad'):
                st['bad'] += 1
    return st
