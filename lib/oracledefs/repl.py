"""oracle, non-triviality rule and statistics for component `repl` (C14): end-to-end convergence scenarios.

Specification (independent of any model): after the primary went quiet every `await <replica>` must report `converged`
(full scan of the replica == full scan of the primary, replica's applied sequence == primary's last sequence, stable
for the stay window) within the bound of the scenario. Scenarios with `expect=clean` additionally require that the
replica never entered its ERROR state on the way (a connected replica of a quiet/pushing primary has no reason to)."""
import re
from oracledefs.common import *
from oracledefs.common import _ops

_ERR_CLASSES = ('decomp', 'selfloop', 'applstream', 'waitappl', 'othererr')


def kv(line):
    """key=value tokens of a verdict / cfg line -> dict (ints where possible)"""
    d = {}
    for w in (line or '').split():
        if '=' in w:
            k, v = w.split('=', 1)
            try:
                d[k] = int(v)
            except ValueError:
                d[k] = v
    return d


def repl_cfg(script):
    for l in script:
        if l.startswith('cfg '):
            return kv(l)
    return {}


def repl_oracle(script, impl):
    probs = []
    cfg = repl_cfg(script)
    for ws, out in _ops(script, impl):
        o = out.split()
        head = o[0] if o else ''
        if head in ('err', 'panic', 'childfail', 'bad-op', 'CRASH', 'CRASH-skipped', ''):
            probs.append('step failed: %s -> %s' % (' '.join(ws)[:60], out[:160]))
            continue
        if head == 'hung':
            probs.append('hung: %s did not return within 5 s (Manager.Stop / Replica.Stop or the engine Close of the replica): %s' % (' '.join(ws)[:40], out[:80]))
            continue
        if head == 'blocked':
            probs.append('blocked: primary operation did not return within the watchdog: %s -> %s' % (' '.join(ws)[:40], out[:200]))
            continue
        if head == 'skipped' or ws[0] != 'await':
            continue
        f = kv(out)
        if head == 'converged':
            if cfg.get('expect') == 'clean':
                for c in _ERR_CLASSES:
                    if f.get(c, 0) > 0:
                        probs.append('error-episode %s: replica %s converged but entered ERROR %d time(s) (%s) [%s]' % (c, ws[1], f[c], c, out[:300]))
        elif head == 'diverged':
            probs.append('not-converged: replica %s differs from the primary after the bound: %s' % (ws[1], out[:600]))
        else:
            probs.append('no verdict for %s: %s' % (' '.join(ws), out[:160]))
    return probs


def repl_ro_oracle(script, impl):
    """C16 seen end to end: a client write sent to a replica's engine is refused - while replication runs and after it was
    stopped (the node stays a replica)"""
    probs = []
    for ws, out in _ops(script, impl):
        if ws[0] == 'clientput' and out != 'clientput refused':
            probs.append('client-write-on-replica: %s -> %s (a replica refuses client writes, also after its replication was stopped)' % (' '.join(ws)[:60], out[:60]))
    return probs


def repl_ro_nontrivial(script, impl):
    return any(l.startswith('clientput') for l in script) and any((i or '').startswith('converged') for i in impl)


def repl_once_oracle(script, impl):
    """C13 seen end to end: within one run of a replica's process the operations handed to its engine are a subsequence of the
    primary's log per key - each at most once, in log order (the harness keeps both lists; `applylog=` on every await)."""
    probs = []
    for ws, out in _ops(script, impl):
        if ws[0] != 'await':
            continue
        mo = [t[9:] for t in (out or '').split() if t.startswith('monotone=')]
        if mo and mo[0] != 'ok':
            probs.append('applied-sequence-regressed: the applied sequence a replica reports went backwards within one run of its process: %s' % mo[0][:120])
        al = [t[9:] for t in (out or '').split() if t.startswith('applylog=')]
        if al and al[0] != 'ok':
            probs.append('not-exactly-once: a replica applied an operation twice or out of log order within one run of its process: %s' % al[0][:300])
    return probs


def repl_once_nontrivial(script, impl):
    return repl_nontrivial(script, impl) and any('applylog=' in (i or '') for i in impl)


def repl_nontrivial(script, impl):
    """a scenario counts if a replica really was compared after at least 5 primary operations"""
    ops = sum(1 for l in script if l.split()[0] in ('put', 'putbig', 'del', 'tx', 'burst', 'burstdel', 'bgburst'))
    verdicts = [i for s, i in zip(script, impl) if s.startswith('await') and i and i.split()[0] in ('converged', 'diverged')]
    return ops >= 1 and bool(verdicts) and any(kv(v).get('primseq', 0) >= 5 for v in verdicts)


def repl_stats(results):
    d = {}
    for r in results:
        cls = repl_cfg(r.script).get('class', '?')
        verdicts = [i.split()[0] + ((':' + str(kv(i).get('finding'))) if i.startswith('diverged') else '')
                    for s, i in zip(r.script, r.impl) if s.startswith('await') and i]
        key = '%s -> %s' % (cls, ','.join(verdicts))
        d[key] = d.get(key, 0) + 1
    ms = [kv(i.replace('converged ', 'ms=', 1)).get('ms', 0) for r in results for s, i in zip(r.script, r.impl)
          if s.startswith('await') and i and i.startswith('converged')]
    return dict(by_class=d, converged=len(ms), max_converge_ms=max(ms) if ms else None)
