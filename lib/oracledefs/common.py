"""Shared helpers for property oracles evaluated on the IMPLEMENTATION's outputs (independent of the Lean model), non-triviality
rules and distribution statistics, per differential component."""


def _ops(script, impl):
    for s, i in zip(script, impl):
        if s.startswith('#'):
            continue
        yield s.split(), (i or '')




def _kb(h):
    """hex token -> bytes ('=' / '-' = empty)"""
    return b'' if h in ('=', '-') else bytes.fromhex(h)
