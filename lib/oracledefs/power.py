"""oracle, non-triviality rule and statistics for component `power` (C02, C20): power loss after every acknowledgement,
reconstructed from the system-call trace (every file cut to its fsync'ed bytes)"""
import subprocess
from oracledefs.common import _ops
from oracledefs.crash import _workload, _digest


def strace_usable():
    try:
        p = subprocess.run(['strace', '-f', '-qq', '-e', 'trace=write', '-o', '/dev/null', 'true'], capture_output=True, timeout=20)
        return p.returncode == 0
    except Exception:
        return False


def _flush_positions(script):
    """indices (in the op list of _workload) of explicit flushes"""
    out, i = [], 0
    for l in script:
        ws = l.split()
        if ws and ws[0] == 'w':
            if ws[1] == 'flush':
                out.append(i)
            i += 1
    return set(out)


def power_oracle(script, impl):
    """After EVERY acknowledgement a: the directory cut to what had been fsync'ed must open and hold exactly the state after a
    prefix of whole writes, never more than were issued, and at least everything made durable: with synchronous logging every
    acknowledged write, in any mode everything before a completed clean close or explicit flush. No file may be renamed into
    place while part of its data is unsynced."""
    probs = []
    sync, ops = _workload(script)
    flushes = _flush_positions(script)
    states, m, nw = [(_digest({}), 0)], {}, 0
    for o in ops:
        if o[0] == 'w':
            for k, v in o[1]:
                if v is None:
                    m.pop(k, None)
                else:
                    m[k] = v
            nw += 1
            states.append((_digest(m), nw))
    for ws, out in _ops(script, impl):
        if ws[0] != 'power':
            continue
        o = out.split()
        if len(o) < 3 or o[0] != 'power' or not o[1].isdigit():
            probs.append('power-loss reconstruction failed: ' + out[:300])
            continue
        if o[2] != '-':
            for fl in o[2].split(','):
                if fl.startswith('rename-unsynced:'):
                    probs.append('%s was renamed into place while part of its data had not been synced: after a power failure the '
                                 'file exists under its final name with missing contents' % fl.split(':', 1)[1])
                else:
                    probs.append('system-call trace: ' + fl)
        if int(o[1]) != len(ops):
            probs.append('%s acknowledgements traced, the workload has %d operations' % (o[1], len(ops)))
        for t in o[3:]:
            f = t.split(':')
            a = int(f[0])
            dig = ':'.join(f[2:])
            if dig.count('/') != 2 or ':' in dig:
                probs.append('power loss after acknowledgement %d (sync=%d, synced log bytes %s): %s' % (a, sync, f[1], dig[:160]))
                if len(probs) > 6:
                    return probs
                continue
            if '+backup' in dig:
                probs.append('power loss after acknowledgement %d: recovery moved log files aside' % a)
                dig = dig.replace('+backup', '')
            cnt, crc, seq = dig.split('/')
            issued = sum(1 for x in ops[:a] if x[0] == 'w')
            durable = issued if sync == 2 else 0
            last_barrier = max([i for i, x in enumerate(ops[:a]) if x[0] == 'r' or i in flushes], default=-1)
            durable = max(durable, sum(1 for x in ops[:last_barrier + 1] if x[0] == 'w'))
            ok = [n for (d, n) in states if d == '%s/%s' % (cnt, crc) and durable <= n <= issued]
            if not ok:
                match = [n for (d, n) in states if d == '%s/%s' % (cnt, crc)]
                probs.append('power loss after acknowledgement %d (sync=%d, synced log bytes %s): recovered state %s is %s (allowed: prefix of %d..%d writes)' % (
                    a, sync, f[1], dig, ('the state after %s writes' % match) if match else 'NOT a prefix of the write history', durable, issued))
            elif int(seq) not in ok and not (int(seq) == 0 and 0 in ok):
                probs.append('power loss after acknowledgement %d: recovered state is the prefix %s but last sequence is %s' % (a, ok, seq))
            if len(probs) > 6:
                return probs
    return probs


def power_nontrivial(script, impl):
    for ws, out in _ops(script, impl):
        if ws[0] == 'power':
            digs = set(':'.join(t.split(':')[2:]) for t in out.split()[3:])
            return len(digs) >= 3
    return False


def power_stats(results):
    d = dict(workloads=0, power_loss_points=0, sync_modes={}, distinct_recovered_states=0, flags={}, multi_log_points=0)
    for r in results:
        d['workloads'] += 1
        for ws, out in _ops(r.script, r.impl):
            if ws[0] == 'cfg':
                d['sync_modes'][ws[1]] = d['sync_modes'].get(ws[1], 0) + 1
            if ws[0] == 'power':
                o = out.split()
                if len(o) >= 3 and o[2] != '-':
                    for fl in o[2].split(','):
                        d['flags'][fl] = d['flags'].get(fl, 0) + 1
                toks = o[3:]
                d['power_loss_points'] += len(toks)
                d['distinct_recovered_states'] += len(set(':'.join(t.split(':')[2:]) for t in toks))
                d['multi_log_points'] += sum(1 for t in toks if ',' in t.split(':')[1])
    return d
