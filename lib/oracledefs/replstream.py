"""oracle, non-triviality rule and statistics for component `replstream` (C15): a real primary with in-process replication
streams whose Send fails, or hangs for a bounded time and then fails, while the stream context is alive.

Specification: every client operation of the primary (`load` = puts, `commit`, `get`) completes within the watchdog and
succeeds whatever the attached streams do; a stream whose context was cancelled leaves the reported topology (`watchdrop`);
the healthy stream is sent every entry of the log (`caughtup`), stays listed and has its acknowledgements accepted."""
from oracledefs.common import _ops
from oracledefs.repl import kv, repl_cfg


def replstream_oracle(script, impl):
    probs = []
    for ws, out in _ops(script, impl):
        o = out.split()
        head = o[0] if o else ''
        if head in ('err', 'panic', 'bad-op', 'CRASH', 'CRASH-skipped', ''):
            probs.append('step failed: %s -> %s' % (' '.join(ws)[:60], out[:160]))
        elif head == 'skipped':
            continue
        elif head == 'blocked':
            probs.append('blocked: %s did not complete within the watchdog (5 s): %s' % (' '.join(ws)[:40], out[:200]))
        elif head == 'failed':
            probs.append('failed: %s returned an error: %s' % (' '.join(ws)[:40], out[:200]))
        elif ws[0] == 'watchdrop' and head != 'dropped':
            probs.append('notdropped: stream %s (context cancelled) still listed by the primary after %s ms' % (ws[1], ws[2]))
        elif ws[0] == 'caughtup' and head != 'caughtup':
            probs.append('lagging: healthy stream %s was not sent the whole log: %s' % (ws[1], out[:120]))
        elif ws[0] == 'listed' and out.strip() != 'listed 1':
            probs.append('unlisted: healthy stream %s is not in the topology / its session is unknown to the primary' % ws[1])
        elif ws[0] == 'topo' and out.strip() != 'topo ' + ws[2]:
            probs.append('topology: stream %s %s by the primary (GetReplicaInfo), expected %s: %s' % (
                ws[1], 'is reported as connected' if ws[2] == '0' else 'is missing from the topology reported', ws[2], out[:60]))
        elif ws[0] == 'acks':
            f = kv(out)
            if f.get('refused', 0) != 0 or f.get('accepted', 0) == 0:
                probs.append('acks: acknowledgements of healthy stream %s refused: %s' % (ws[1], out[:120]))
        elif ws[0] == 'verdict' and head != 'ok' and not probs:
            probs.append('verdict: ' + out[:200])
    return probs


def replstream_nontrivial(script, impl):
    return any(l.startswith(('setsend', 'cutctx')) for l in script) and any((i or '').startswith('ok n=') for i in impl)


def replstream_stats(results):
    d = {}
    for r in results:
        cls = repl_cfg(r.script).get('class', '?')
        v = [(i or '?').split(';')[0][:40] for s, i in zip(r.script, r.impl) if s.startswith('verdict')]
        key = '%s -> %s' % (cls, ','.join(v))
        d[key] = d.get(key, 0) + 1
    return dict(by_class=d)
