"""oracle, non-triviality rule and statistics for component `walfault` (C10)"""
import zlib
from oracledefs.common import _ops, _kb

MAXREC = 32768


def _entry_txt(op, seq, k, v):
    return '%s:%d:%s:%s' % (op, seq, k, '=' if op == '2' else v)


def _enc_len(k, v, op):
    """bytes of the encoding of one entry (FULL or FIRST/MIDDLE*/LAST), independent of the model"""
    kl = 0 if k == '=' else len(k) // 2
    vl = 0 if (v in ('=', '-') or op == '2') else len(v) // 2
    pl = 13 + kl + (0 if op == '2' else 4 + vl)
    if pl <= MAXREC:
        return 7 + pl
    first = 13 + min(kl, MAXREC - 13)
    rest = pl - first
    n = 1
    while rest > MAXREC:
        rest -= MAXREC
        n += 1
    if rest > 0:
        n += 1
    return pl + 7 * n


def _dig(txts):
    return '%d:%d' % (len(txts), zlib.crc32(' '.join(txts).encode()) & 0xffffffff)


def walfault_oracle(script, impl):
    probs = []
    files = [[]]     # per file: list of (text, encoded length)
    nxt = 1
    for ws, out in _ops(script, impl):
        op = ws[0]
        if out.startswith('panic'):
            probs.append('%s: implementation panicked: %s' % (op, out[:120]))
            continue
        if out == 'noseal':
            continue
        if op == 'new':
            files, nxt = [[]], 1
        elif op == 'append' and out.startswith('ok'):
            files[-1].append((_entry_txt(ws[1], nxt, ws[2], ws[3]), _enc_len(ws[2], ws[3], ws[1])))
            nxt += 1
        elif op == 'batch' and out.startswith('ok') and int(ws[1]) > 0:
            t = ws[2:]
            for i in range(0, len(t) - 2, 3):
                files[-1].append((_entry_txt(t[i], nxt, t[i + 1], t[i + 2]), _enc_len(t[i + 1], t[i + 2], t[i])))
            nxt += 1
        elif op == 'rotate':
            files.append([])
        elif op in ('truncall', 'flipall'):
            older = [t for f in files[:-1] for (t, _) in f]
            cur = files[-1]
            ends, acc = [], 0
            for (_, l) in cur:
                acc += l
                ends.append(acc)
            allset = set(older + [t for (t, _) in cur])
            for tok in out.split()[2:]:
                pos, st, cnt, crc, fab = tok.split(':')
                pos = int(pos)
                whole = [t for (t, _), e in zip(cur, ends) if e <= pos]
                if op == 'truncall':
                    want = _dig(older + whole)
                    if st != 'ok' or '%s:%s' % (cnt, crc) != want:
                        probs.append('log cut at byte %d: replay %s with %s entries, expected ok with exactly the %d complete entries before the cut' % (
                            pos, st, cnt, len(older + whole)))
                else:
                    # damage at byte pos: undamaged older files and everything complete before pos must be delivered
                    if st == 'panic':
                        probs.append('corrupt byte %d: reader panicked' % pos)
                    elif int(cnt) < len(older + whole):
                        probs.append('corrupt byte %d: only %s entries delivered, %d were complete before the damage (undamaged files included)' % (
                            pos, cnt, len(older + whole)))
                if fab != '0':
                    probs.append('%s at byte %d: %s delivered operation(s) were never appended (fabricated)' % ('cut' if op == 'truncall' else 'corruption', pos, fab))
                if len(probs) > 5:
                    return probs
        elif op in ('engtrunc', 'engflip', 'engcutrec'):
            o = out.split()
            res = o[2] if len(o) > 2 else out
            if res.startswith('openerr') or res.startswith('panic'):
                probs.append('%s %s: opening the database on the damaged log failed: %s' % (op, ws[1], res[:100]))
            elif '+backup' in res:
                probs.append('%s %s: recovery moved log files aside (undamaged files discarded)' % (op, ws[1]))
            elif not res.endswith(':ok'):
                probs.append('%s %s: writes acknowledged after the recovery were not recoverable: %s' % (op, ws[1], res[:100]))
            elif op == 'engtrunc':
                pos = int(o[1])
                cur = files[-1]
                ends, acc = [], 0
                for (_, l) in cur:
                    acc += l
                    ends.append(acc)
                want_n = len([t for f in files[:-1] for t in f]) + len([1 for e in ends if e <= pos])
                # recovered last sequence = sequence of the last complete entry (or 0)
                txts = [t for f in files[:-1] for (t, _) in f] + [t for (t, _), e in zip(cur, ends) if e <= pos]
                seqs = [int(t.split(':')[1]) for t in txts]
                got_seq = int(res.split(':')[0].split('/')[2])
                if got_seq != (max(seqs) if seqs else 0):
                    probs.append('engtrunc %d: recovered last sequence %d, expected %d (%d complete entries)' % (pos, got_seq, max(seqs) if seqs else 0, want_n))
    return probs


def walfault_nontrivial(script, impl):
    return sum(1 for l in script if l.startswith('append') or l.startswith('batch')) >= 3


def walfault_stats(results):
    d = dict(cut_offsets=0, corrupted_positions=0, status={}, engine_opens=0, logs=0, multi_file_logs=0, fragmented_logs=0)
    for r in results:
        d['logs'] += 1
        if any(l == 'rotate' for l in r.script):
            d['multi_file_logs'] += 1
        if any(len(l) > 60000 for l in r.script):
            d['fragmented_logs'] += 1
        for ws, out in _ops(r.script, r.impl):
            if ws[0] in ('truncall', 'flipall'):
                toks = out.split()[2:]
                d['cut_offsets' if ws[0] == 'truncall' else 'corrupted_positions'] += len(toks)
                for t in toks:
                    st = t.split(':')[1]
                    if t.split(':')[-1] != '0':
                        d['fabricated'] = d.get('fabricated', 0) + 1
                    d['status'][ws[0] + '.' + st] = d['status'].get(ws[0] + '.' + st, 0) + 1
            if ws[0].startswith('eng'):
                d['engine_opens'] += 1
    return d


def walfault_c03_oracle(script, impl):
    """C03, torn-write clause: a cut log must contain all records of a batch or none."""
    probs = []
    files = [[]]   # per file: list of (batch id or None, encoded length)
    bid = 0
    for ws, out in _ops(script, impl):
        op = ws[0]
        if op == 'new':
            files = [[]]
        elif op == 'append' and out.startswith('ok'):
            files[-1].append((None, _enc_len(ws[2], ws[3], ws[1])))
        elif op == 'batch' and out.startswith('ok') and int(ws[1]) > 0:
            bid += 1
            t = ws[2:]
            for i in range(0, len(t) - 2, 3):
                files[-1].append((bid, _enc_len(t[i + 1], t[i + 2], t[i])))
        elif op == 'rotate':
            files.append([])
        elif op == 'truncall':
            cur = files[-1]
            ends, acc = [], 0
            for (_, l) in cur:
                acc += l
                ends.append(acc)
            older = sum(len(f) for f in files[:-1])
            for tok in out.split()[2:]:
                pos, st, cnt = tok.split(':')[:3]
                n = int(cnt) - older
                if 0 < n < len(cur) and cur[n - 1][0] is not None and cur[n][0] == cur[n - 1][0]:
                    probs.append('torn batch: log cut at byte %s replays %d of the records of one transaction (batch %d), not all or none' % (pos, n, cur[n][0]))
                    break
    return probs
