"""oracle for component `rorace` (C16, implementation-only): replicated applies racing client mutators on a read-only engine"""
from oracledefs.common import _ops


def rorace_oracle(script, impl):
    probs = []
    for ws, out in _ops(script, impl):
        if ws[0] == 'race' and not out.startswith('ok'):
            probs.append('%s: %s' % (' '.join(ws), out[:300]))
    return probs


def _nums(out):
    return {k: int(v) for k, v in (f.split('=') for f in out.split()[1:] if '=' in f and f.split('=')[1].isdigit())}


def rorace_nontrivial(script, impl):
    for ws, out in _ops(script, impl):
        if out.startswith('ok '):
            d = _nums(out)
            return d.get('applied', 0) >= 100 and d.get('refused', 0) >= 100
    return False


def rorace_stats(results):
    d = dict(scenarios=0, replicated_entries_applied=0, client_calls_refused=0)
    for r in results:
        for ws, out in _ops(r.script, r.impl):
            d['scenarios'] += 1
            if out.startswith('ok '):
                n = _nums(out)
                d['replicated_entries_applied'] += n.get('applied', 0)
                d['client_calls_refused'] += n.get('refused', 0)
    return d
