"""oracle, non-triviality rule and statistics for component `sst` (C11)"""
from oracledefs.common import *
from oracledefs.common import _ops, _kb

def _parse_triples(ws):
    return [(ws[i], ws[i + 1], int(ws[i + 2])) for i in range(0, len(ws) - 2, 3)]


class _SpecIter:
    """the specification of an ordered iterator over a list of (key, val, seq)"""
    def __init__(self, es):
        self.es, self.pos, self.init = es, None, False
    def first(self):
        self.pos, self.init = (0 if self.es else None), True
    def last(self):
        self.pos, self.init = (len(self.es) - 1 if self.es else None), True
    def seek(self, t):
        self.init = True
        self.pos = next((i for i, e in enumerate(self.es) if _kb(e[0]) >= t), None)
        return self.pos is not None
    def next(self):
        if not self.init:
            self.first()
            return self.pos is not None
        if self.pos is None:
            return False
        self.pos = self.pos + 1 if self.pos + 1 < len(self.es) else None
        return self.pos is not None
    def show(self, ret):
        if self.pos is None:
            return '%s 0 - - 0 0' % ret
        k, v, s = self.es[self.pos]
        return '%s 1 %s %s %d %d' % (ret, k, v, s, 1 if v == '-' else 0)


def sst_oracle(script, impl):
    probs = []
    bes = tes = None
    bit = tit = None
    altered = False
    written = set()
    for ws, out in _ops(script, impl):
        op = ws[0]
        if out.startswith('panic'):
            probs.append('%s: implementation panicked: %s' % (' '.join(ws)[:60], out[:120]))
            continue
        if op == 'bbuild' or op == 'tbuild':
            es = _parse_triples(ws[2:] if op == 'bbuild' else ws[3:])
            asc = all(_kb(a[0]) < _kb(b[0]) for a, b in zip(es, es[1:])) and len(es) > 0
            ok = out.startswith('ok')
            if asc != ok:
                probs.append('%s of %s entry list: %s' % (op, 'an ascending' if asc else 'a non-ascending', out[:40]))
            if op == 'bbuild':
                bes, bit = (es if ok else None), (_SpecIter(es) if ok else None)
            else:
                tes, tit, altered = (es if ok else None), (_SpecIter(es) if ok else None), False
                written = set(es) if ok else set()
            continue
        if op == 'talter':
            altered = True
            if not out.startswith('ok'):
                tit = None
            continue
        if op in ('bfirst', 'blast', 'bnext', 'bseek'):
            if bit is None:
                continue
            if op == 'bfirst':
                bit.first(); want = bit.show('-')
            elif op == 'blast':
                bit.last(); want = bit.show('-')
            elif op == 'bnext':
                r = bit.next(); want = bit.show('1' if r else '0')
            else:
                r = bit.seek(_kb(ws[1])); want = bit.show('1' if r else '0')
            if out != want:
                probs.append('block %s: got "%s" want "%s"' % (' '.join(ws)[:60], out[:120], want[:120]))
                bit = None
            continue
        if tes is None or out == 'closed':
            continue
        if altered:
            # altered file: whatever is returned must have been written (never a different key/value/flag/seq)
            if op == 'tall':
                for e in out.split()[2:]:
                    k, v, s = e.split(':')
                    if (k, v, int(s)) not in written:
                        probs.append('altered table yields an entry that was never written: %s' % e[:100])
                        break
            elif op == 'tget' and out.startswith('found'):
                v = out.split()[1]
                if (ws[1], v) not in set((k, vv) for k, vv, _ in written):
                    probs.append('altered table: get %s returns a value that was never written' % ws[1][:40])
            elif op in ('tfirst', 'tlast', 'tnext', 'tseek'):
                o = out.split()
                if len(o) == 6 and o[1] == '1' and (o[2], o[3], int(o[4])) not in written:
                    probs.append('altered table: iterator shows an entry that was never written: %s' % out[:100])
            continue
        if op == 'tall':
            want = 'ok %d %s' % (len(tes), ' '.join('%s:%s:%d' % e for e in tes))
            if out != want.strip():
                probs.append('full iteration differs from the entries written (%d written): got "%s"' % (len(tes), out[:160]))
        elif op == 'tget':
            m = next((e for e in tes if e[0] == ws[1] or (_kb(e[0]) == _kb(ws[1]))), None)
            want = ('found ' + m[1]) if m else 'nf'
            if out != want:
                probs.append('get %s: got "%s" want "%s"' % (ws[1][:40], out[:80], want[:80]))
        elif op == 'tnew':
            tit = _SpecIter(tes)
        elif op in ('tfirst', 'tlast', 'tnext', 'tseek') and tit is not None:
            if op == 'tfirst':
                tit.first(); want = tit.show('-')
            elif op == 'tlast':
                tit.last(); want = tit.show('-')
            elif op == 'tnext':
                r = tit.next(); want = tit.show('1' if r else '0')
            else:
                r = tit.seek(_kb(ws[1])); want = tit.show('1' if r else '0')
            if out != want:
                probs.append('table %s: got "%s" want "%s"' % (' '.join(ws)[:60], out[:120], want[:120]))
                tit = None
    return probs


def sst_nontrivial(script, impl):
    for ws, out in _ops(script, impl):
        if ws[0] in ('bbuild', 'tbuild') and out.startswith('ok'):
            n = int(ws[1] if ws[0] == 'bbuild' else ws[2])
            if n >= 3:
                return True
    return False


def sst_stats(results):
    d = dict(ops={}, blocks_gt16=0, multi_block_tables=0, tombstones=0, empty_values=0, altered_open_err=0, altered_open_ok=0)
    for r in results:
        for ws, out in _ops(r.script, r.impl):
            d['ops'][ws[0]] = d['ops'].get(ws[0], 0) + 1
            if ws[0] == 'bbuild' and int(ws[1]) > 16:
                d['blocks_gt16'] += 1
            if ws[0] == 'tbuild' and out.startswith('ok') and int(out.split()[1]) > 70000:
                d['multi_block_tables'] += 1
            if ws[0] in ('bbuild', 'tbuild'):
                d['tombstones'] += ws.count('-')
                d['empty_values'] += ws.count('=')
            if ws[0] == 'talter':
                d['altered_open_ok' if out.startswith('ok') else 'altered_open_err'] += 1
    return d

