"""oracle, non-triviality rule and statistics for component `txconc` (C04).

The specification, independent of the Go harness and of the Lean model: a history (every transaction with its
lock-acquisition ticket, begin-call / finish-return clocks, every read with its result, its writes, its outcome;
the initial and the final contents) is accepted iff
  * replaying the transactions ONE AT A TIME in ticket order on an abstract map reproduces every read result and the
    final contents (own writes visible, nobody else's buffered writes visible, read-only snapshot stable are all
    implied: a serial replay cannot produce anything else),
  * the ticket order is consistent with real time (a ended before b was requested => a first),
  * every call after the first Commit/Rollback answered "closed" (scan: empty) and changed nothing,
  * and, for histories of <= 6 transactions, SOME order consistent with real time explains the history when all
    orders are tried (cross-check that does not use the tickets at all).
"""
import json, itertools
from oracledefs.common import *
from oracledefs.common import _ops

BRUTE_MAX = 6


def _hb(h):
    return b'' if h in ('=', '-', '') else bytes.fromhex(h)


def _replay_tx(db, t):
    """run one whole transaction on db (dict hex->hex). Returns (db', problem or None)."""
    buf = {}
    done = False
    for n, o in enumerate(t.get('ops') or []):
        where = 'tx g%s.%s op%d %s' % (t['g'], t['i'], n, o['op'])
        res = o.get('res', '')
        if done:
            want = 'scan:' if o['op'] == 's' else 'closed'
            if res != want:
                return None, '%s after finish: got %s want %s' % (where, res, want)
            continue

        def view(k):
            if k in buf:
                return buf[k]
            return db.get(k)
        if o['op'] == 'g':
            v = view(o['k'])
            want = 'nf' if v is None else 'found:' + v
            if res != want:
                return None, '%s %s: read %s, serial execution gives %s' % (where, o['k'], res, want)
        elif o['op'] == 's':
            lo = None if o['k'] == '-' else _hb(o['k'])
            hi = None if o.get('k2', '-') == '-' else _hb(o['k2'])
            keys = sorted(set(db) | set(buf), key=_hb)
            parts = []
            for k in keys:
                kb = _hb(k)
                if (lo is not None and kb < lo) or (hi is not None and kb >= hi):
                    continue
                v = view(k)
                if v is not None:
                    parts.append(k + '=' + v)
            want = 'scan:' + ','.join(parts)
            if res != want:
                return None, '%s [%s,%s): read %s, serial execution gives %s' % (where, o['k'], o.get('k2'), res[:200], want[:200])
        elif o['op'] in ('p', 'd'):
            if t['mode'] == 'ro':
                if res != 'readonly':
                    return None, '%s on a read-only transaction: got %s' % (where, res)
                continue
            if res != 'ok':
                return None, '%s: got %s' % (where, res)
            buf[o['k']] = o['v'] if o['op'] == 'p' else None
        elif o['op'] in ('C', 'R'):
            done = True
            if res != 'ok':
                return None, '%s: got %s' % (where, res)
            if o['op'] == 'C':
                db = dict(db)
                for k, v in buf.items():
                    if v is None:
                        db.pop(k, None)
                    else:
                        db[k] = v
    return db, None


def _replay(pre, order):
    db = dict(pre)
    for t in order:
        db, p = _replay_tx(db, t)
        if p:
            return None, p
    return db, None


def _brute(pre, txs, final):
    """is there ANY order consistent with real time that explains the history?"""
    n = len(txs)
    before = [[txs[a]['ret'] < txs[b]['call'] for b in range(n)] for a in range(n)]
    for perm in itertools.permutations(range(n)):
        pos = {x: i for i, x in enumerate(perm)}
        if any(before[a][b] and pos[a] > pos[b] for a in range(n) for b in range(n)):
            continue
        db, p = _replay(pre, [txs[i] for i in perm])
        if p is None and db == final:
            return True
    return False


def _hist(line):
    i = (line or '').find('hist=')
    if i < 0:
        return None
    try:
        return json.loads(line[i + 5:])
    except ValueError:
        return None


def txconc_oracle(script, impl):
    probs = []
    for ws, out in _ops(script, impl):
        if out.startswith('panic') or out.startswith('CRASH'):
            probs.append('%s: %s' % (ws[0], out[:200]))
            continue
        if ws[0] in ('open', 'g'):
            if out != 'ok':
                probs.append('%s: %s' % (ws[0], out[:120]))
            continue
        if ws[0] != 'run':
            continue
        verdict = out.split(' hist=')[0]
        if not verdict.startswith('ok '):
            probs.append('harness verdict: ' + verdict[:400])
        h = _hist(out)
        if h is None:
            if verdict.startswith('ok '):
                probs.append('no history recorded')
            continue
        txs = sorted(h['txs'], key=lambda t: t['ticket'])
        for t in txs:
            if t['out'] not in ('committed', 'rolledback'):
                probs.append('transaction g%s.%s: outcome %s' % (t['g'], t['i'], t['out']))
            if not (t['call'] < t['ticket'] < t['ret']):
                probs.append('transaction g%s.%s: ticket %s outside its begin call (%s..%s)' % (t['g'], t['i'], t['ticket'], t['call'], t['ret']))
        if len(set(t['ticket'] for t in txs)) != len(txs):
            probs.append('duplicate lock-acquisition tickets')
        if probs:
            continue
        for a in txs:
            for b in txs:
                if a['ret'] < b['call'] and not a['ticket'] < b['ticket']:
                    probs.append('real time: g%s.%s ended before g%s.%s was requested but acquired the lock later' % (a['g'], a['i'], b['g'], b['i']))
        db, p = _replay(h['pre'], txs)
        if p:
            probs.append('not serializable in lock-acquisition order: ' + p)
        elif db != h['final']:
            probs.append('final contents differ from the serial execution: got %s want %s' % (sorted(h['final'].items())[:8], sorted(db.items())[:8]))
        if len(txs) <= BRUTE_MAX:
            if not _brute(h['pre'], txs, h['final']):
                probs.append('brute force: no order consistent with real time explains the history (%d transactions)' % len(txs))
            elif p:
                probs.append('brute force found a serial order but the lock-acquisition order is not one (instrument problem?)')
    return probs


def _overlap(txs):
    """number of pairs of transactions whose lifetimes [ticket, ret] or [call, ret] overlapped"""
    n = 0
    for i, a in enumerate(txs):
        for b in txs[i + 1:]:
            if a['call'] < b['ret'] and b['call'] < a['ret']:
                n += 1
    return n


def txconc_nontrivial(script, impl):
    """at least 3 transactions, one committed write that a LATER transaction read, and two overlapping lifetimes"""
    for ws, out in _ops(script, impl):
        if ws[0] != 'run':
            continue
        h = _hist(out)
        if not h or len(h['txs']) < 3:
            return False
        txs = sorted(h['txs'], key=lambda t: t['ticket'])
        written = set()
        read_after_write = False
        for t in txs:
            for o in t.get('ops') or []:
                if o['op'] == 'g' and o['res'].startswith('found:') and o['res'][6:] in written:
                    read_after_write = True
                if o['op'] == 's' and any(p.split('=', 1)[-1] in written for p in o['res'][5:].split(',') if p):
                    read_after_write = True
            if t['out'] == 'committed':
                for o in t.get('ops') or []:
                    if o['op'] == 'p' and o['res'] == 'ok':
                        written.add(o['v'])
        return read_after_write and _overlap(txs) > 0
    return False


def txconc_stats(results):
    d = dict(scenarios=0, transactions=0, reads=0, overlapping_pairs=0, brute_forced=0, rw=0, ro=0, committed=0, rolledback=0,
             waited_for_lock=0)
    for r in results:
        for ws, out in _ops(r.script, r.impl):
            if ws[0] != 'run':
                continue
            h = _hist(out)
            if not h:
                continue
            d['scenarios'] += 1
            txs = h['txs']
            d['transactions'] += len(txs)
            d['overlapping_pairs'] += _overlap(txs)
            d['brute_forced'] += 1 if len(txs) <= BRUTE_MAX else 0
            for t in txs:
                d['rw' if t['mode'] == 'rw' else 'ro'] += 1
                d[t['out']] = d.get(t['out'], 0) + 1
                d['reads'] += sum(1 for o in (t.get('ops') or []) if o['op'] in ('g', 's'))
                # another transaction acquired or finished between this one's request and its acquisition
                if any(t['call'] < u['ticket'] < t['ticket'] or t['call'] < u['ret'] < t['ticket'] for u in txs if u is not t):
                    d['waited_for_lock'] += 1
    return d
