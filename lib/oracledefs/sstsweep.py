"""oracle for component `sstsweep` (C11, alteration clause; implementation only): EVERY single-bit alteration of a table file either
fails with an error or still yields only entries that were written (same key, value / deletion flag, sequence number) — through
iteration and through point lookups; never a panic, never an endless iteration. (Keys may be hidden: allowed.)"""
from oracledefs.common import _ops
from oracledefs.repl import kv


def sstsweep_oracle(script, impl):
    probs = []
    for ws, out in _ops(script, impl):
        if ws[0] == 'tbuild' and not out.startswith('ok'):
            probs.append('table could not be built: ' + out[:80])
        if ws[0] == 'tcache':
            f = kv(out)
            if not out.startswith('cache ') or f.get('wrong', 1) != 0:
                probs.append('table with more blocks than the block cache holds: %s lookups / iteration steps returned something else than what '
                             'was written: %s' % (f.get('wrong', '?'), out[:200]))
            continue
        if ws[0] != 'tsweep':
            continue
        f = kv(out)
        if not out.startswith('sweep '):
            probs.append('sweep failed: ' + out[:120])
        elif f.get('foreign', 0) or f.get('panics', 0):
            probs.append('altered table file: %d single-bit alterations yield an entry that was never written (or never end), %d panic; '
                         'first at byte.bit %s' % (f.get('foreign', 0), f.get('panics', 0), out.split('first=')[-1][:200]))
    return probs


def sstsweep_nontrivial(script, impl):
    return any(((i or '').startswith('sweep flips=') and kv(i).get('flips', 0) > 1000) or (i or '').startswith('cache entries=') for i in impl)


def sstsweep_stats(results):
    d = dict(tables=0, flips=0, opened=0)
    for r in results:
        for ws, out in _ops(r.script, r.impl):
            if ws[0] == 'tsweep':
                f = kv(out)
                d['tables'] += 1
                d['flips'] += f.get('flips', 0)
                d['opened'] += f.get('opened', 0)
    return d
