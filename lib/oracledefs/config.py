"""oracle, non-triviality rule and statistics for component `config` (C20).

The oracle is the executable SPECIFICATION, independent of the Lean model and of the translated Validate: it tracks the
in-memory configuration from the script, re-implements the documented constraints and defaults in Python, and checks on
the IMPLEMENTATION's output that
  * Validate accepts exactly the configurations satisfying every documented constraint, and an error names a
    constraint that is really violated;
  * SaveManifest succeeds exactly on valid configurations, leaves MANIFEST and no temp file, never exposes a partial
    manifest (hook site manifest.tmpWritten), and writes NOTHING when it rejects;
  * a saved configuration loads back identical (every field, exact float, exact bytes of the strings);
  * a damaged (truncated / garbage / unreadable / invalid) manifest makes load AND engine open fail — never a silent start
    with defaults; an engine opened over a stored configuration runs with exactly that configuration; defaults are
    used (and stored) only when there is no manifest.
"""
from fractions import Fraction
import math, struct
from oracledefs.common import _ops

INT_DEFAULTS = dict(Version=1, WALSyncMode=2, WALSyncBytes=1048576, WALMaxSize=0, MemTableSize=32 * 1024 * 1024, MaxMemTables=4,
                    MaxMemTableAge=600, MemTablePoolCap=4, SSTableBlockSize=16 * 1024, SSTableIndexSize=64 * 1024,
                    SSTableMaxSize=64 * 1024 * 1024, SSTableRestartSize=16, CompactionLevels=7, CompactionThreads=2,
                    CompactionInterval=30, MaxLevelWithTombstones=1, ReadOnlyTxTTL=180, ReadWriteTxTTL=60, IdleTxTimeout=30,
                    TxCleanupInterval=30, TxWarningThreshold=75, TxCriticalThreshold=90)
STR_FIELDS = ('WALDir', 'SSTDir')
FLOAT_FIELDS = ('CompactionRatio',)


def default_cfg():
    c = dict(INT_DEFAULTS)
    c['WALDir'] = b'wal'
    c['SSTDir'] = b'sst'
    c['CompactionRatio'] = 10.0
    return c


def zero_cfg():
    c = {k: 0 for k in INT_DEFAULTS}
    c['WALDir'] = b''
    c['SSTDir'] = b''
    c['CompactionRatio'] = 0.0
    return c


# (message class, predicate "constraint holds") in the documented order
def _gt1(r):
    return (not math.isnan(r)) and r > 1.0


CONSTRAINTS = [
    ('invalid_version', lambda c: c['Version'] > 0),
    ('WAL_directory_not_specified', lambda c: c['WALDir'] != b''),
    ('SSTable_directory_not_specified', lambda c: c['SSTDir'] != b''),
    ('MemTable_size_must_be_positive', lambda c: c['MemTableSize'] > 0),
    ('Max_MemTables_must_be_positive', lambda c: c['MaxMemTables'] > 0),
    ('SSTable_block_size_must_be_positive', lambda c: c['SSTableBlockSize'] > 0),
    ('SSTable_index_size_must_be_positive', lambda c: c['SSTableIndexSize'] > 0),
    ('Compaction_levels_must_be_positive', lambda c: c['CompactionLevels'] > 0),
    ('Compaction_ratio_must_be_greater_than', lambda c: _gt1(c['CompactionRatio'])),
    ('Compaction_ratio_must_be_a_finite_number', lambda c: math.isfinite(c['CompactionRatio'])),
    ('Read-only_transaction_TTL_must_be_positive', lambda c: c['ReadOnlyTxTTL'] > 0),
    ('Read-write_transaction_TTL_must_be_positive', lambda c: c['ReadWriteTxTTL'] > 0),
    ('Idle_transaction_timeout_must_be_positive', lambda c: c['IdleTxTimeout'] > 0),
    ('Transaction_cleanup_interval_must_be_positive', lambda c: c['TxCleanupInterval'] > 0),
    ('Transaction_warning_threshold_must_be_between', lambda c: 1 <= c['TxWarningThreshold'] <= 99),
    ('Transaction_critical_threshold_must_be_between_warning_threshold_and',
     lambda c: c['TxWarningThreshold'] < c['TxCriticalThreshold'] <= 99),
    # (repair of KF-C20-utf8) the manifest is JSON: a path that is not valid UTF-8 could not be stored faithfully
    ('directory_paths_must_be_valid_UTF', lambda c: go_valid_utf8(c['WALDir']) and go_valid_utf8(c['SSTDir'])),
]


def violated(c):
    return [name for name, ok in CONSTRAINTS if not ok(c)]


def go_rune_len(b, i):
    """width of the valid UTF-8 sequence at b[i:] as Go's utf8.DecodeRune sees it; 0 = invalid"""
    b0 = b[i]
    n = len(b) - i
    cont = lambda x: 0x80 <= x <= 0xBF
    if b0 < 0x80:
        return 1
    if 0xC2 <= b0 <= 0xDF:
        return 2 if n >= 2 and cont(b[i + 1]) else 0
    if 0xE0 <= b0 <= 0xEF:
        lo = 0xA0 if b0 == 0xE0 else 0x80
        hi = 0x9F if b0 == 0xED else 0xBF
        return 3 if n >= 3 and lo <= b[i + 1] <= hi and cont(b[i + 2]) else 0
    if 0xF0 <= b0 <= 0xF4:
        lo = 0x90 if b0 == 0xF0 else 0x80
        hi = 0x8F if b0 == 0xF4 else 0xBF
        return 4 if n >= 4 and lo <= b[i + 1] <= hi and cont(b[i + 2]) and cont(b[i + 3]) else 0
    return 0


def go_valid_utf8(b):
    i = 0
    while i < len(b):
        n = go_rune_len(b, i)
        if n == 0:
            return False
        i += n
    return True


def go_json_string(b):
    """what comes back from json.Unmarshal(json.Marshal(string(b))): invalid bytes -> U+FFFD, one per byte"""
    out, i = bytearray(), 0
    while i < len(b):
        n = go_rune_len(b, i)
        if n == 0:
            out += b'\xef\xbf\xbd'
            i += 1
        else:
            out += b[i:i + n]
            i += n
    return bytes(out)


def parse_tok(tok):
    if tok.startswith('i:'):
        return int(tok[2:])
    if tok.startswith('s:'):
        return b'' if tok[2:] == '=' else bytes.fromhex(tok[2:])
    if tok.startswith('f:'):
        return struct.unpack('>d', bytes.fromhex(tok[2:]))[0]
    raise ValueError(tok)


def show_val(name, v):
    if name in STR_FIELDS:
        return '=' if v == b'' else v.hex()
    if name in FLOAT_FIELDS:
        if math.isnan(v):
            return 'nan'
        if math.isinf(v):
            return '+inf' if v > 0 else '-inf'
        f = Fraction(v)
        return '%d/%d' % (f.numerator, f.denominator)
    return str(v)


def parse_fields(tokens):
    d = {}
    for t in tokens:
        if '=' in t:
            k, v = t.split('=', 1)
            d[k] = v
    return d


def diff_cfg(want, got_tokens):
    """-> list of (field, want_text, got_text) where the printed configuration differs from `want`"""
    got = parse_fields(got_tokens)
    out = []
    for k, v in want.items():
        w = show_val(k, v)
        if got.get(k) != w:
            out.append((k, w, got.get(k)))
    for k in got:
        if k not in want and k != 'wals':
            out.append((k, None, got[k]))
    return out


ABSENT, DAMAGED = 'absent', 'damaged'


def config_oracle(script, impl):
    probs = []
    cfg = zero_cfg()
    stored = ABSENT        # ABSENT | DAMAGED | dict (the configuration whose JSON is in MANIFEST; may be invalid if planted)
    listing = 'absent'     # last known MANIFEST* listing of the database directory (None = unknown)
    for ws, out in _ops(script, impl):
        o = out.split()
        op = ws[0]
        if out.startswith('panic') or out.startswith('CRASH'):
            probs.append('%s: %s' % (' '.join(ws), out[:200]))
            continue
        if op == 'new':
            cfg, stored, listing = zero_cfg(), ABSENT, 'absent'
        elif op == 'zero':
            cfg = zero_cfg()
        elif op == 'defaults':
            cfg = default_cfg()
        elif op == 'set':
            if o[:1] == ['ok']:
                cfg = dict(cfg)
                cfg[ws[1]] = parse_tok(ws[2])
        elif op == 'show':
            d = diff_cfg(cfg, o[1:])
            if d:
                probs.append('show: in-memory configuration differs from the assignments: %s' % d[:3])
        elif op == 'validate':
            bad = violated(cfg)
            if o[:1] == ['ok']:
                if bad:
                    probs.append('Validate ACCEPTED a configuration violating: %s (%s)' % (', '.join(bad), _brief(cfg, bad)))
            elif o[:1] == ['err']:
                cls = o[1] if len(o) > 1 else ''
                if not bad:
                    probs.append('Validate REJECTED a configuration satisfying every documented constraint: %s' % out[:120])
                elif not cls.startswith('invalid:') or cls[8:] not in bad:
                    probs.append('Validate reported %s but the violated constraints are %s' % (cls, bad))
            else:
                probs.append('validate: unexpected output %s' % out[:80])
        elif op == 'save':
            bad = violated(cfg)
            kv = parse_fields(o)
            blocked = (stored == 'unreadable')
            if o[:1] == ['ok']:
                if bad:
                    probs.append('SaveManifest STORED a configuration violating: %s (%s)' % (', '.join(bad), _brief(cfg, bad)))
                if kv.get('dir') != 'MANIFEST':
                    probs.append('after a successful save the directory holds %s (expected exactly MANIFEST)' % kv.get('dir'))
                if kv.get('mid') != 'old' or kv.get('tmp') != 'yes':
                    probs.append('save is not temp-file + rename: at manifest.tmpWritten mid=%s tmp=%s' % (kv.get('mid'), kv.get('tmp')))
                stored, listing = dict(cfg), kv.get('dir')
            elif o[:1] == ['err']:
                if not bad and not blocked:
                    probs.append('SaveManifest rejected a valid configuration: %s' % out[:120])
                if bad:
                    if listing is not None and kv.get('dir') != listing:
                        probs.append('a rejected save changed the directory: %s -> %s' % (listing, kv.get('dir')))
                    if kv.get('mid') != '-' or kv.get('tmp') != '-':
                        probs.append('a rejected save reached the write (mid=%s tmp=%s)' % (kv.get('mid'), kv.get('tmp')))
                    cls = o[1] if len(o) > 1 else ''
                    if not cls.startswith('invalid:') or cls[8:] not in bad:
                        probs.append('SaveManifest reported %s but the violated constraints are %s' % (cls, bad))
                else:
                    listing = kv.get('dir')
            else:
                probs.append('save: unexpected output %s' % out[:80])
        elif op == 'load':
            probs += _check_load(stored, o, out, 'load')
        elif op == 'trunc':
            if o[:1] == ['ok']:
                stored = DAMAGED
        elif op == 'truncall':
            if isinstance(stored, dict) or stored == DAMAGED:
                if out != 'truncall ok':
                    probs.append('a truncated manifest was accepted: %s' % out[:200])
            elif out != 'truncall nomanifest':
                probs.append('truncall: unexpected output %s' % out[:80])
        elif op == 'garbage':
            stored, listing = DAMAGED, None
        elif op == 'plant':
            if o[:1] == ['ok']:
                stored, listing = dict(cfg), None
        elif op == 'unreadable':
            stored, listing = 'unreadable', None
        elif op == 'saverace':
            if out != 'saverace ok':
                probs.append('saverace: a save that runs next to Config.Update must store ONE valid state of the configuration and return: %s' % out[:160])
        elif op == 'rmmanifest':
            stored, listing = ABSENT, None
        elif op == 'openengine':
            listing = None
            if stored == ABSENT:
                d = default_cfg()
                if o[:1] != ['ok']:
                    probs.append('engine open on a directory without manifest failed: %s' % out[:120])
                else:
                    df = diff_cfg(d, o[1:])
                    if df:
                        probs.append('engine created over no manifest does not run with the documented defaults: %s' % df[:3])
                    stored = d
            elif isinstance(stored, dict) and not violated(stored):
                if o[:1] != ['ok']:
                    probs.append('engine open over a valid stored configuration failed: %s' % out[:120])
                else:
                    df = diff_cfg(stored, o[1:])
                    if df:
                        probs.append('engine does NOT run with the stored configuration: %s' % _fmt_diff(stored, df))
                    wals = parse_fields(o).get('wals', '')
                    if show_val('WALDir', stored['WALDir']) not in wals.split(','):
                        probs.append('engine did not create its log under the stored WALDir %s (log files under: %s)' % (show_val('WALDir', stored['WALDir']), wals))
            else:   # damaged, unreadable, or decodable but invalid
                if o[:1] == ['ok']:
                    what = stored if isinstance(stored, str) else 'invalid (%s)' % ', '.join(violated(stored))
                    df = diff_cfg(default_cfg(), o[1:])
                    probs.append('engine OPENED over a %s manifest%s' % (what, ' silently using the defaults' if not df else ''))
                elif o[:2] != ['err', 'load'] or o[2:3] == ['notfound']:
                    probs.append('engine open over a bad manifest failed with an unexpected class: %s' % out[:120])
        elif out == 'bad-op':
            probs.append('harness did not understand: %s' % ' '.join(ws)[:80])
    return probs


def _brief(cfg, bad):
    keys = {'invalid_version': 'Version', 'WAL_directory_not_specified': 'WALDir', 'SSTable_directory_not_specified': 'SSTDir',
            'MemTable_size_must_be_positive': 'MemTableSize', 'Max_MemTables_must_be_positive': 'MaxMemTables',
            'SSTable_block_size_must_be_positive': 'SSTableBlockSize', 'SSTable_index_size_must_be_positive': 'SSTableIndexSize',
            'Compaction_levels_must_be_positive': 'CompactionLevels', 'Compaction_ratio_must_be_greater_than': 'CompactionRatio',
            'Compaction_ratio_must_be_a_finite_number': 'CompactionRatio', 'Read-only_transaction_TTL_must_be_positive': 'ReadOnlyTxTTL',
            'Read-write_transaction_TTL_must_be_positive': 'ReadWriteTxTTL', 'Idle_transaction_timeout_must_be_positive': 'IdleTxTimeout',
            'Transaction_cleanup_interval_must_be_positive': 'TxCleanupInterval',
            'Transaction_warning_threshold_must_be_between': 'TxWarningThreshold',
            'Transaction_critical_threshold_must_be_between_warning_threshold_and': 'TxCriticalThreshold'}
    return ', '.join('%s=%s' % (keys[b], show_val(keys[b], cfg[keys[b]])) for b in bad if b in keys)


UTF8_TAG = 'utf8-replaced:'


def _fmt_diff(want, df):
    return '; '.join('%s stored %s, got %s' % d for d in df[:4])


def _check_load(stored, o, out, what):
    probs = []
    if stored == ABSENT:
        if o[:2] != ['err', 'notfound']:
            probs.append('%s without a manifest: expected ErrManifestNotFound, got %s' % (what, out[:100]))
    elif stored == DAMAGED:
        if o[:1] == ['ok']:
            probs.append('%s ACCEPTED a damaged manifest: %s' % (what, out[:100]))
        elif o[:2] != ['err', 'invalidmanifest']:
            probs.append('%s of a damaged manifest: expected ErrInvalidManifest, got %s' % (what, out[:100]))
    elif stored == 'unreadable':
        if o[:2] != ['err', 'read']:
            probs.append('%s of an unreadable manifest: expected a read error, got %s' % (what, out[:100]))
    else:
        bad = violated(stored)
        if bad:
            if o[:1] == ['ok']:
                probs.append('%s ACCEPTED a stored configuration violating %s' % (what, bad))
            elif not (len(o) > 1 and o[1].startswith('invalid:') and o[1][8:] in bad):
                probs.append('%s of an invalid stored configuration: got %s, violated: %s' % (what, out[:100], bad))
        elif o[:1] != ['ok']:
            probs.append('%s of a stored valid configuration failed: %s' % (what, out[:100]))
        else:
            df = diff_cfg(stored, o[1:])
            other = []
            for k, w, g in df:
                if k in STR_FIELDS and not go_valid_utf8(stored[k]) and g == show_val(k, go_json_string(stored[k])):
                    probs.append('%s field %s stored=%s loaded=%s (a validated, stored configuration came back changed)' % (UTF8_TAG, k, w, g))
                else:
                    other.append((k, w, g))
            if other:
                probs.append('%s returned a configuration different from the one stored: %s' % (what, _fmt_diff(stored, other)))
    return probs


def config_nontrivial(script, impl):
    saved = any(ws[0] == 'save' and out.startswith('ok') for ws, out in _ops(script, impl))
    loaded = any(ws[0] in ('load', 'openengine') for ws, out in _ops(script, impl))
    rejected = any(ws[0] in ('validate', 'save') and out.startswith('err') for ws, out in _ops(script, impl))
    damaged = any(ws[0] in ('trunc', 'truncall', 'garbage', 'plant', 'unreadable', 'rmmanifest') for ws, out in _ops(script, impl))
    return (saved and loaded) or rejected or (damaged and loaded)


def config_stats(results):
    d = dict(ops={}, validate={}, load={}, openengine={}, saves_ok=0, saves_rejected=0, truncall=0, utf8_replaced_cases=0)
    for r in results:
        if any(p.startswith(UTF8_TAG) for p in (r.problems or [])):
            d['utf8_replaced_cases'] += 1
        for ws, out in _ops(r.script, r.impl):
            d['ops'][ws[0]] = d['ops'].get(ws[0], 0) + 1
            o = out.split()
            cls = ' '.join(o[:3] if o[:2] == ['err', 'load'] else o[:2] if o[:1] == ['err'] else o[:1])
            if ws[0] in ('validate', 'load', 'openengine'):
                d[ws[0]][cls] = d[ws[0]].get(cls, 0) + 1
            elif ws[0] == 'save':
                d['saves_ok' if o[:1] == ['ok'] else 'saves_rejected'] += 1
            elif ws[0] == 'truncall' and out == 'truncall ok':
                d['truncall'] += 1
    return d
