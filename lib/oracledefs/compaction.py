"""oracle, non-triviality rule and statistics for component `compaction` (C12).

The oracle is the executable specification, evaluated on the IMPLEMENTATION's outputs only:
  * abstract map: every get / scan (also after compaction, log retirement and reopen) returns the latest write of each key;
    a key whose latest write is a delete is absent
  * directory level (from the `sstdump` lines around every compact / crange): the newest-wins merged view of the table
    directory is the same before and after the compaction (deletion markers count as absent; a key that was absent because
    of a marker stays absent), also at the point where inputs and outputs coexist; every table is sorted without duplicate keys
  * hook trace of a cycle: no input is deleted before all outputs are finished

Problem strings are structured (`kind|line|key|got|want|...`) so that the predicates of lib/findings.py can classify them."""
import re, zlib
from oracledefs.common import *
from oracledefs.common import _ops, _kb


def _triples3(ws):
    return [(ws[i], ws[i + 1], ws[i + 2]) for i in range(0, len(ws) - 2, 3)]


def parse_sstdump(out):
    """'sst n L/F/[k:v:seq,...] ...' -> list of dict(level, num, ents=[(key bytes, val bytes|None, seq)]) in load order
    (oldest first); None if the line is not a dump"""
    ws = out.split()
    if len(ws) < 2 or ws[0] != 'sst':
        return None
    tabs = []
    for tok in ws[2:]:
        m = re.fullmatch(r'(\d+)/(\d+)/\[(.*)\]', tok)
        if not m:
            return None
        ents = []
        if m.group(3) and m.group(3) != 'openerr':
            for e in m.group(3).split(','):
                k, v, s = e.split(':')
                ents.append((_kb(k), None if v == '-' else _kb(v), int(s)))
        tabs.append(dict(level=int(m.group(1)), num=int(m.group(2)), ents=ents, err=(m.group(3) == 'openerr')))
    return tabs


def dir_view(tabs):
    """newest-wins view: key -> value or None (deletion marker on top)"""
    v = {}
    for t in tabs:           # oldest first: later tables overwrite
        for k, val, _ in t['ents']:
            v[k] = val
    return v


def live(view):
    return {k: v for k, v in view.items() if v is not None}


def view_crc(view):
    txt = ';'.join('%s:%s' % (k.hex() or '=', v.hex() or '=') for k, v in sorted(live(view).items()))
    return str(zlib.crc32(txt.encode()) & 0xffffffff)


def _hx(b):
    return b.hex() or '='


def _show(v):
    return '-' if v is None else 'found:' + _hx(v)


class Walk:
    """one pass over a case: the abstract map, the write history per key, and the maintenance events"""
    def __init__(self, script, impl):
        self.m = {}
        self.hist = {}        # key -> [dict(line, val, via, epoch)]
        self.events = []      # (line, kind, words, out)
        self.epoch = 0
        self.lines = [(i, s.split(), (impl[i] or '')) for i, s in enumerate(script) if not s.startswith('#')]

    def write(self, i, k, val, via):
        self.m[k] = val
        self.hist.setdefault(k, []).append(dict(line=i, val=val, via=via, epoch=self.epoch))


def compaction_oracle(script, impl):
    probs = []
    w = Walk(script, impl)
    prev_dump = None          # (line index, tables) of an sstdump directly before the current op
    pending = None            # (line, words, out, pre tables) of a compaction waiting for the dump after it
    for i, ws, out in w.lines:
        op = ws[0]
        if out.startswith('panic') or out.startswith('CRASH'):
            probs.append('crash|%d|%s|%s' % (i, ' '.join(ws)[:60], out[:160]))
            prev_dump = pending = None
            continue
        if op == 'sstdump':
            tabs = parse_sstdump(out)
            if tabs is None:
                probs.append('dump|%d|unreadable table dump: %s' % (i, out[:80]))
                prev_dump = pending = None
                continue
            for t in tabs:
                keys = [e[0] for e in t['ents']]
                if t['err']:
                    probs.append('dump|%d|table %d/%d cannot be opened' % (i, t['level'], t['num']))
                if any(a >= b for a, b in zip(keys, keys[1:])):
                    probs.append('unsorted|%d|table %d/%d is not strictly ascending' % (i, t['level'], t['num']))
                if not keys:
                    probs.append('dump|%d|empty table %d/%d' % (i, t['level'], t['num']))
            if pending is not None:
                pl, pws, pout, pre = pending
                a, b = dir_view(pre), dir_view(tabs)
                for k in sorted(set(a) | set(b)):
                    if a.get(k) != b.get(k) and not (a.get(k) is None and b.get(k) is None):
                        probs.append('view|%d|%s|%s|%s|%s' % (pl, _hx(k), _show(b.get(k)), _show(a.get(k)), ' '.join(pws)))
                mm = re.search(r'view=(\S+)', pout)
                if mm:
                    parts = mm.group(1).split('/')
                    if parts[0] != view_crc(a) or parts[-1] != view_crc(b):
                        probs.append('dump|%d|view checksums of the harness (%s) differ from the dumps (%s, %s)' % (pl, mm.group(1), view_crc(a), view_crc(b)))
                pending = None
            prev_dump = (i, tabs)
            continue
        if op in ('compact', 'crange'):
            o = out.split()
            if o[:1] != ['ok']:
                probs.append('error|%d|%s failed: %s' % (i, op, out[:160]))
                prev_dump = pending = None
                continue
            w.events.append((i, op, ws, out))
            tr = re.search(r'trace=(\S+)', out)
            tr = tr.group(1) if tr else '-'
            if 'X' in tr and ('F' in tr[tr.index('X'):] or 'D' in tr[tr.index('X'):] or 'D' not in tr):
                probs.append('order|%d|an input file was deleted before the outputs were complete: trace %s' % (i, tr))
            vm = re.search(r'view=(\S+)', out)
            parts = vm.group(1).split('/') if vm else []
            if parts and any(p != parts[0] for p in parts if p != '-'):
                if not (prev_dump is not None and prev_dump[0] == i - 1):
                    probs.append('viewcrc|%d|%s changed the merged view of the directory (%s)' % (i, op, vm.group(1)))
                elif len(parts) == 3 and parts[1] != '-' and parts[1] != parts[0] and parts[2] == parts[0]:
                    probs.append('viewcrc|%d|%s: view with inputs and outputs side by side differs (%s)' % (i, op, vm.group(1)))
            if prev_dump is not None and prev_dump[0] == i - 1:
                pending = (i, ws, out, prev_dump[1])
            prev_dump = None
            continue
        prev_dump = None
        if pending is not None and op not in ('get', 'scan'):
            pending = None
        if op == 'open':
            w.m, w.hist, w.epoch = {}, {}, 0
            if not out.startswith('ok'):
                probs.append('error|%d|open failed: %s' % (i, out[:120]))
        elif op in ('put', 'del', 'batch', 'tx'):
            if out.split()[:1] != ['ok']:
                probs.append('error|%d|%s rejected: %s' % (i, ' '.join(ws)[:60], out[:120]))
                continue
            if op == 'put':
                w.write(i, _kb(ws[1]), _kb(ws[2]), 'put')
            elif op == 'del':
                w.write(i, _kb(ws[1]), None, 'del')
            else:
                for d, k, v in _triples3(ws[2:]):
                    w.write(i, _kb(k), None if d == 'd' else _kb(v), op)
        elif op == 'reopen':
            if out.split()[:1] != ['ok']:
                probs.append('error|%d|reopen failed: %s' % (i, out[:160]))
                continue
            w.epoch += 1
            w.events.append((i, 'reopen', ws, out))
        elif op in ('flush', 'retire'):
            if out.split()[:1] != ['ok']:
                probs.append('error|%d|%s failed: %s' % (i, op, out[:160]))
                continue
            w.events.append((i, op, ws, out))
        elif op == 'get':
            k = _kb(ws[1])
            want = w.m.get(k)
            wtxt = 'nf' if want is None else 'found ' + _hx(want)
            if out != wtxt:
                got = None if out == 'nf' else (_kb(out.split()[1]) if out.startswith('found ') and len(out.split()) == 2 else b'?' + out.encode())
                probs.append('read|%d|%s|%s|%s|get' % (i, _hx(k), _show(got), _show(want)))
        elif op == 'scan':
            lo = None if ws[1] == '-' else _kb(ws[1])
            hi = None if ws[2] == '-' else _kb(ws[2])
            want = {k: v for k, v in w.m.items() if v is not None and (lo is None or k >= lo) and (hi is None or k < hi)}
            o = out.split()
            got = {}
            bad = o[:1] != ['scan'] or 'ORDER-VIOLATION' in o
            if not bad:
                try:
                    pairs = [p.split(':') for p in o[2:]]
                    keys = [_kb(p[0]) for p in pairs]
                    got = {_kb(p[0]): _kb(p[1]) for p in pairs}
                    bad = int(o[1]) != len(pairs) or any(a >= b for a, b in zip(keys, keys[1:]))
                except Exception:
                    bad = True
            if bad:
                probs.append('scanform|%d|malformed or unordered scan result: %s' % (i, out[:120]))
                continue
            for k in sorted(set(want) | set(got)):
                if want.get(k) != got.get(k):
                    probs.append('read|%d|%s|%s|%s|scan' % (i, _hx(k), _show(got.get(k)), _show(want.get(k))))
    return probs


# ----------------------------------------------------------------------------------------------------------
# classification of problems by mechanism (used by the predicates of lib/findings.py; strict: a problem that fits no
# mechanism stays unexplained and the case is reported as a violation)
# ----------------------------------------------------------------------------------------------------------

def _unshow(t):
    return None if t == '-' else _kb(t.split(':', 1)[1])


def _context(script, impl):
    """write history per key, maintenance events with their epoch, table dumps by line"""
    hist, events, dumps = {}, [], {}
    epoch = 0
    clock = 0                 # the tombstone tracker's clock in seconds (`advance`)
    for i, s in enumerate(script):
        if s.startswith('#'):
            continue
        ws, out = s.split(), (impl[i] or '')
        op = ws[0]
        ok = out.split()[:1] == ['ok']
        if op == 'open':
            hist, events, dumps, epoch, clock = {}, [], {}, 0, 0
        elif op == 'advance' and ok:
            clock += int(ws[1])
        elif op == 'put' and ok:
            hist.setdefault(_kb(ws[1]), []).append(dict(line=i, val=_kb(ws[2]), via='put', epoch=epoch, time=clock))
        elif op == 'del' and ok:
            hist.setdefault(_kb(ws[1]), []).append(dict(line=i, val=None, via='del', epoch=epoch, time=clock))
        elif op in ('batch', 'tx') and ok:
            for d, k, v in _triples3(ws[2:]):
                hist.setdefault(_kb(k), []).append(dict(line=i, val=None if d == 'd' else _kb(v), via=op, epoch=epoch, time=clock))
        elif op == 'reopen' and ok:
            epoch += 1
            events.append(dict(line=i, kind='reopen', ws=ws, out=out, epoch=epoch, time=clock))
        elif op in ('flush', 'retire', 'compact', 'crange') and ok:
            events.append(dict(line=i, kind=op, ws=ws, out=out, epoch=epoch, time=clock))
        elif op == 'sstdump':
            t = parse_sstdump(out)
            if t is not None:
                dumps[i] = t
    return hist, events, dumps


def _untracked_delete_between(hist, events, k, after_line, before_line, comp_line=None):
    """a delete of k issued after `after_line` that the tombstone tracker does not know when a compaction runs before
    `before_line` (at `comp_line` if given): it was made inside a transaction, or before a restart that precedes that
    compaction"""
    comps = [e for e in events if e['kind'] in ('compact', 'crange') and e['line'] < before_line and (comp_line is None or e['line'] == comp_line)]
    for d in hist.get(k, []):
        if d['val'] is None and after_line < d['line']:
            for c in comps:
                if d['line'] < c['line'] and (d['via'] == 'tx' or c['epoch'] > d['epoch']):
                    return True
                if d['line'] < c['line'] and _expired_at(hist, k, c):
                    return True
    return False


RETENTION = 86400             # TombstoneTracker retention of the engine (24 h), seconds


def _expired_at(hist, k, c):
    """the same defect (D26: a marker is kept only if this process recorded the delete in the last 24 h), clock side: every
    delete of k that the tracker of the running process recorded (facade Delete / ApplyBatch, same epoch as the compaction)
    before compaction c is `RETENTION` or more old at c — the LAST recorded delete counts, each one refreshes the record"""
    rec = [d for d in hist.get(k, []) if d['val'] is None and d['via'] in ('del', 'batch') and d['epoch'] == c['epoch'] and d['line'] < c['line']]
    return bool(rec) and c.get('time', 0) - rec[-1].get('time', 0) >= RETENTION


def classify(script, impl, problems):
    """-> list of labels 'TOMBSTONE' | 'REFLUSH' | 'RANGE' | None, one per problem"""
    hist, events, dumps = _context(script, impl)
    labels = []
    range_keys = set()        # keys whose directory view was changed by a partial CompactRange
    for p in problems:
        f = p.split('|')
        lab = None
        try:
            if f[0] == 'view':
                line, k, got, want, opw = int(f[1]), _kb(f[2]), _unshow(f[3]), _unshow(f[4]), f[5].split()
                pre = dumps.get(line - 1)
                if opw[0] == 'crange' and pre is not None:
                    lo, hi = _kb(opw[1]), _kb(opw[2])
                    def sel(t):
                        ks = [e[0] for e in t['ents']]
                        return bool(ks) and len(lo) > 0 and len(hi) > 0 and not (ks[-1] < lo or ks[0] > hi)
                    in_sel = any(sel(t) and any(e[0] == k for e in t['ents']) for t in pre)
                    in_rest = any((not sel(t)) and any(e[0] == k for e in t['ents']) for t in pre)
                    if in_sel and in_rest:
                        lab = 'RANGE'
                        range_keys.add(k)
                if lab is None and want is None and got is not None and pre is not None:
                    # resurrection: a marker on top before, an older value of the key after
                    top = dir_view(pre)
                    olds = [h for h in hist.get(k, []) if h['val'] == got and h['line'] < line]
                    if k in top and top[k] is None and olds and \
                            _untracked_delete_between(hist, events, k, olds[0]['line'], line + 1, comp_line=line):
                        lab = 'TOMBSTONE'
                    elif k in top and top[k] is None:
                        # a STALE marker: the value underneath is newer than the delete that wrote the marker; the marker came
                        # on top when recovered history was flushed again after a restart and (unknown to the tracker of the
                        # new process) is dropped now
                        news = [h for h in hist.get(k, []) if h['val'] == got and h['line'] < line]
                        dels = [h for h in hist.get(k, []) if h['val'] is None and h['line'] < line]
                        if any(d['line'] < v['line'] and any(e['kind'] == 'reopen' and v['line'] < e['line'] < line for e in events)
                               for v in news for d in dels):
                            lab = 'REFLUSH'
            elif f[0] == 'read':
                line, k, got, want = int(f[1]), _kb(f[2]), _unshow(f[3]), _unshow(f[4])
                hs = [h for h in hist.get(k, []) if h['line'] < line]
                latest = hs[-1] if hs else None
                older = [h for h in hs[:-1] if h['val'] == got]
                if k in range_keys and older:
                    lab = 'RANGE'
                elif latest is not None and latest['val'] is None and got is not None and older and \
                        _untracked_delete_between(hist, events, k, older[-1]['line'], line):
                    lab = 'TOMBSTONE'
                elif latest is not None and older:
                    # stale version after: reopen R1 (both writes before it) .. flush of recovered history .. retire .. reopen R2
                    for r1 in [e for e in events if e['kind'] == 'reopen' and latest['line'] < e['line'] < line]:
                        fl = [e for e in events if e['kind'] == 'flush' and e['line'] > r1['line']]
                        wr = [h for hh in hist.values() for h in hh if h['line'] > r1['line']]
                        first = min([e['line'] for e in fl] + [h['line'] for h in wr] + [1 << 60])
                        rt = [e for e in events if e['kind'] == 'retire' and e['line'] > first and re.search(r'deleted=[1-9]', e['out'])]
                        if rt and any(e['kind'] == 'reopen' and rt[0]['line'] < e['line'] < line for e in events):
                            lab = 'REFLUSH'
                            break
        except Exception:
            lab = None
        labels.append(lab)
    return labels


def matches_finding(script, impl, problems, which):
    """the case is an instance of finding `which` iff every problem is explained by one of the known mechanisms of C12 and
    at least one by `which`"""
    labels = classify(script, impl, problems)
    return bool(labels) and all(l is not None for l in labels) and which in labels


def compaction_nontrivial(script, impl):
    """a compaction that really merged or moved files, followed by a reopen on a directory from which log files had been
    retired, followed by a read"""
    compacted = retired = reopened = False
    for ws, out in _ops(script, impl):
        if ws[0] in ('compact', 'crange') and re.search(r'trace=[A-Z]*[FX]', out):
            compacted = True
        if ws[0] == 'retire' and compacted and re.search(r'deleted=[1-9]', out):
            retired = True
        if ws[0] == 'reopen' and retired:
            reopened = True
        if ws[0] in ('get', 'scan') and reopened:
            return True
    return False


def compaction_stats(results):
    d = dict(ops={}, kinds={}, traces={}, max_level=0, max_l0_files=0, max_tables=0, compactions_with_tombstone_input=0,
             compactions_multi_output=0, retire_deleted=0, cases_reading_after_retire_reopen=0, view_checked_compactions=0)
    for r in results:
        m = re.search(r'kind=(\d+)', r.script[0]) if r.script else None
        if m:
            d['kinds'][m.group(1)] = d['kinds'].get(m.group(1), 0) + 1
        last_tabs = None
        if compaction_nontrivial(r.script, r.impl):
            d['cases_reading_after_retire_reopen'] += 1
        for ws, out in _ops(r.script, r.impl):
            d['ops'][ws[0]] = d['ops'].get(ws[0], 0) + 1
            if ws[0] == 'sstdump':
                tabs = parse_sstdump(out) or []
                d['max_tables'] = max(d['max_tables'], len(tabs))
                d['max_level'] = max([d['max_level']] + [t['level'] for t in tabs])
                d['max_l0_files'] = max(d['max_l0_files'], sum(1 for t in tabs if t['level'] == 0))
                last_tabs = tabs
            elif ws[0] in ('compact', 'crange'):
                tr = re.search(r'trace=(\S+)', out)
                t = tr.group(1) if tr else '?'
                shape = 'none' if t == '-' else ('F%d' % t.count('F') + ('X%d' % t.count('X') if 'X' in t else ''))
                d['traces'][shape] = d['traces'].get(shape, 0) + 1
                if t.count('F') > 1:
                    d['compactions_multi_output'] += 1
                if last_tabs is not None and t != '-':
                    d['view_checked_compactions'] += 1
                    if any(v is None for tb in last_tabs for _, v, _ in tb['ents']):
                        d['compactions_with_tombstone_input'] += 1
                last_tabs = None
            else:
                if ws[0] == 'retire':
                    mm = re.search(r'deleted=(\d+)', out)
                    d['retire_deleted'] += int(mm.group(1)) if mm else 0
                last_tabs = None
    d['traces'] = dict(sorted(d['traces'].items(), key=lambda kv: -kv[1])[:12])
    return d
