"""oracle, non-triviality rule and statistics for component `memconc` (C18, implementation only: one writer, concurrent
readers, race build). The checks run in-process (harness/comp_memconc.go); a scenario answers `ok …` or `bad <class> …`."""
from oracledefs.common import *
from oracledefs.common import _ops


def memconc_oracle(script, impl):
    probs = []
    for ws, out in _ops(script, impl):
        if out.startswith('ok '):
            continue
        if out.startswith('bad '):
            probs.append('memconc %s: %s' % (' '.join(ws[1:4]), out[4:300]))
        elif out.startswith('CRASH'):
            continue   # reported by the framework with the process's stderr (data race report, fatal error, hang)
        else:
            probs.append('memconc %s: unexpected answer "%s"' % (' '.join(ws[1:4]), out[:120]))
    return probs


def _field(out, name):
    for w in out.split():
        if w.startswith(name + '='):
            try:
                return int(w[len(name) + 1:])
            except ValueError:
                return 0
    return 0


def memconc_nontrivial(script, impl):
    """readers really observed entries / lookups while at least 8 inserts ran"""
    for ws, out in _ops(script, impl):
        if out.startswith('ok ') and _field(out, 'inserts') >= 8 and (_field(out, 'obs') + _field(out, 'gets') + _field(out, 'seeks')) >= 20:
            return True
    return False


def memconc_stats(results):
    d = dict(kinds={}, inserts=0, observed_entries=0, iterations=0, seeks=0, gets=0, bad={})
    for r in results:
        for ws, out in _ops(r.script, r.impl):
            kind = next((w[5:] for w in ws if w.startswith('kind=')), '?')
            d['kinds'][kind] = d['kinds'].get(kind, 0) + 1
            if out.startswith('ok '):
                d['inserts'] += _field(out, 'inserts')
                d['observed_entries'] += _field(out, 'obs')
                d['iterations'] += _field(out, 'iters')
                d['seeks'] += _field(out, 'seeks')
                d['gets'] += _field(out, 'gets')
            elif out.startswith('bad '):
                c = out.split()[1]
                d['bad'][c] = d['bad'].get(c, 0) + 1
    return d
