"""component walconc (implementation only): concurrent appenders on one log; see harness/comp_walconc.go"""


def _kv(line):
    d = {}
    for w in (line or '').split():
        if '=' in w:
            k, v = w.split('=', 1)
            try:
                d[k] = int(v)
            except ValueError:
                d[k] = v
    return d


def walconc_oracle(script, impl):
    probs = []
    for s, o in zip(script, impl):
        if not s.startswith('conc '):
            continue
        o = o or ''
        if not o.startswith('conc ') or not o.endswith(' ok'):
            probs.append('concurrent appends on one log: the replay is not exactly the appended operations under the numbers Append returned, '
                         'in sequence order: %s (%s)' % (o[:300], s[:120]))
    return probs


def walconc_nontrivial(script, impl):
    return any(_kv(o).get('appended', 0) >= 80 for o in impl if o)


def walconc_stats(results):
    tot = sum(_kv(o).get('appended', 0) for r in results for o in r.impl if o)
    return dict(operations_appended=tot)
