"""oracle, non-triviality rule and statistics for component `mem` (C18, sequential).

The oracle is the executable SPECIFICATION of an ordered multi-version map, written independently of the Lean model:
a table is the multiset of its inserts (with their insertion number); a lookup returns the version with the greatest
(sequence number, insertion number); iteration order is (key ascending, sequence number descending, insertion number
descending); an iterator stands on an insert (or nowhere) and hides versions above its snapshot; an immutable table ignores
writes; the pool answers from the newest layer that knows the key."""
from oracledefs.common import *
from oracledefs.common import _ops, _kb


class _Ent:
    __slots__ = ('key', 'val', 'seq', 'idx')

    def __init__(self, key, val, seq, idx):
        self.key, self.val, self.seq, self.idx = key, val, seq, idx   # val None = deletion marker

    def order(self):
        return (self.key, -self.seq, -self.idx)


class _Table:
    def __init__(self):
        self.es, self.immutable, self.size, self.next_seq, self.count = [], False, 0, 0, 0

    def add(self, key, val, seq):
        if self.immutable:
            return
        self.es.append(_Ent(key, val, seq, self.count))
        self.count += 1
        self.size += len(key) + len(val or b'') + 16
        if seq > self.next_seq:
            self.next_seq = seq + 1

    def get(self, key):
        vs = [e for e in self.es if e.key == key]
        if not vs:
            return 'nf'
        b = max(vs, key=lambda e: (e.seq, e.idx))
        return 'deleted' if b.val is None else 'found ' + _hx(b.val)

    def has(self, key):
        return any(e.key == key for e in self.es)

    def view(self):
        return sorted(self.es, key=_Ent.order)


HEAD = object()


class _Iter:
    def __init__(self, table):
        self.t, self.snap, self.cur = table, (0 if table.immutable else table.next_seq), HEAD

    def vis(self, e):
        return self.snap == 0 or e.seq <= self.snap

    def visible(self):
        return [e for e in self.t.view() if self.vis(e)]

    def first(self):
        v = self.visible()
        self.cur = v[0] if v else None

    def next(self):
        if self.cur is HEAD:
            return self.first()
        if self.cur is None:
            return
        o = self.cur.order()
        self.cur = next((e for e in self.visible() if e.order() > o), None)

    def valid(self):
        return self.cur is not HEAD and self.cur is not None

    def anext(self):
        if not self.valid():
            return False
        self.next()
        return self.valid()

    def seek(self, t):
        self.cur = next((e for e in self.visible() if e.key >= t), None)
        return self.valid()

    def last(self):
        v = self.visible()
        if not v:
            self.cur = None
            return
        k = v[-1].key
        self.cur = next(e for e in v if e.key == k)

    def show(self, ret):
        if not self.valid():
            return '%s 0 - - 0 0' % ret
        e = self.cur
        return '%s 1 %s %s %d %d' % (ret, _hx(e.key), '-' if e.val is None else _hx(e.val), e.seq, 1 if e.val is None else 0)


def _hx(b):
    return '=' if len(b) == 0 else b.hex()


class _Pool:
    def __init__(self, memsize):
        self.memsize, self.active, self.imm, self.flush = memsize, _Table(), [], False

    def add(self, key, val, seq):
        self.active.add(key, val, seq)
        if not self.flush and self.active.size >= self.memsize:
            self.flush = True

    def get(self, key):
        for t in [self.active] + self.imm[::-1]:
            r = t.get(key)
            if r != 'nf':
                return r
        return 'nf'

    def info(self):
        return 'ok %d %d %d %d' % (1 if self.flush else 0, len(self.imm), sum(t.size for t in [self.active] + self.imm), self.active.next_seq)

    def tables(self):
        return [self.active] + self.imm


def mem_expected(script):
    """the specification's output line for every script line (None for comment lines)"""
    t, it, pool = _Table(), None, _Pool(1 << 20)
    out = []
    for line in script:
        if line.startswith('#'):
            out.append(None)
            continue
        ws = line.split()
        op = ws[0]
        r = 'bad-op'
        if op == 'new':
            t, it, r = _Table(), None, 'ok'
        elif op == 'put':
            t.add(_kb(ws[1]), _kb(ws[2]), int(ws[3]))
            r = 'ok %d %d' % (t.size, t.next_seq)
        elif op == 'del':
            t.add(_kb(ws[1]), None, int(ws[2]))
            r = 'ok %d %d' % (t.size, t.next_seq)
        elif op == 'get':
            r = t.get(_kb(ws[1]))
        elif op == 'has':
            r = '1' if t.has(_kb(ws[1])) else '0'
        elif op == 'immut':
            t.immutable, r = True, 'ok'
        elif op == 'size':
            r = 'ok %d %d %d' % (t.size, t.next_seq, 1 if t.immutable else 0)
        elif op == 'it':
            it, r = _Iter(t), 'ok'
        elif op == 'iter':
            it = _Iter(t)
            v = it.visible()
            it.cur = None
            r = ' '.join(['ok', str(len(v))] + ['%s:%s:%d' % (_hx(e.key), '-' if e.val is None else _hx(e.val), e.seq) for e in v])
        elif op in ('first', 'next', 'anext', 'seek', 'last', 'cur'):
            if it is None:
                r = 'noiter'
            elif op == 'first':
                it.first(); r = it.show('-')
            elif op == 'next':
                it.next(); r = it.show('-')
            elif op == 'anext':
                x = it.anext(); r = it.show('1' if x else '0')
            elif op == 'seek':
                x = it.seek(_kb(ws[1])); r = it.show('1' if x else '0')
            elif op == 'last':
                it.last(); r = it.show('-')
            else:
                r = it.show('-')
        elif op == 'pool':
            pool, r = _Pool(int(ws[1])), 'ok'
        elif op == 'poolput':
            pool.add(_kb(ws[1]), _kb(ws[2]), int(ws[3])); r = pool.info()
        elif op == 'pooldel':
            pool.add(_kb(ws[1]), None, int(ws[2])); r = pool.info()
        elif op == 'poolget':
            r = pool.get(_kb(ws[1]))
        elif op == 'switch':
            old = pool.active
            old.immutable = True
            pool.imm.append(old)
            pool.active, pool.flush = _Table(), False
            r = 'ok %d %d %d %d' % (old.size, old.next_seq, 1, len(pool.imm))
        elif op == 'pooltables':
            ts = pool.tables()
            r = ' '.join(['ok', str(len(ts))] + ['%d:%d:%d' % (x.size, 1 if x.immutable else 0, x.next_seq) for x in ts])
        elif op == 'pooltab':
            ts = pool.tables()
            i = int(ws[1])
            if 0 <= i < len(ts):
                t, it, r = ts[i], None, 'ok'
            else:
                r = 'none'
        out.append(r)
    return out


def mem_oracle(script, impl):
    probs = []
    want = mem_expected(script)
    for line, w, got in zip(script, want, impl):
        if w is None:
            continue
        got = got or ''
        if got.startswith('panic'):
            probs.append('%s: implementation panicked: %s' % (line[:60], got[:120]))
            break
        if 'INCONSISTENT' in got:
            probs.append('%s: accessors of one position disagree: %s' % (line[:60], got[:120]))
            break
        if got != w:
            probs.append('%s: got "%s", the specification says "%s"' % (line[:80], got[:160], w[:160]))
            break
    return probs


def mem_nontrivial(script, impl):
    """at least 3 writes took effect on some key twice (several versions) and an iterator or lookup looked at them"""
    keys, reads = {}, 0
    for ws, out in _ops(script, impl):
        if ws[0] in ('put', 'del', 'poolput', 'pooldel'):
            keys[ws[1]] = keys.get(ws[1], 0) + 1
        elif ws[0] in ('get', 'poolget', 'iter', 'seek', 'next', 'last', 'first', 'anext'):
            reads += 1
    return sum(keys.values()) >= 3 and max(keys.values() or [0]) >= 2 and reads >= 2


def mem_stats(results):
    d = dict(ops={}, ties=0, nonmonotone=0, seq_zero=0, empty_values=0, nil_values=0, deleted_reads=0, switches=0)
    for r in results:
        last_seq, seen = None, set()
        for ws, out in _ops(r.script, r.impl):
            d['ops'][ws[0]] = d['ops'].get(ws[0], 0) + 1
            if ws[0] in ('put', 'del', 'poolput', 'pooldel'):
                s = int(ws[-1])
                if (ws[1], s) in seen:
                    d['ties'] += 1
                seen.add((ws[1], s))
                if last_seq is not None and s < last_seq:
                    d['nonmonotone'] += 1
                last_seq = s
                d['seq_zero'] += (s == 0)
                if ws[0] in ('put', 'poolput'):
                    d['empty_values'] += (ws[2] == '=')
                    d['nil_values'] += (ws[2] == '-')
            if out == 'deleted':
                d['deleted_reads'] += 1
            if ws[0] == 'switch':
                d['switches'] += 1
    return d
