"""oracle, non-triviality rule and statistics for component `replfault` (C15): a real primary with fault-injected clients
of its replication stream next to a healthy replica.

Specification: every client operation of the primary (`load` = puts, `get`, `commit`) completes (5 s watchdog) and
succeeds whatever the attached clients do; a misbehaving client (stalled, never acknowledging, cut) leaves the reported
topology within the observation window (`watchdrop` -> `dropped`); the node-info query itself answers; the healthy replica
still converges (`await`) and is listed (`topo h=1`)."""
from oracledefs.common import *
from oracledefs.common import _ops
from oracledefs.repl import kv, repl_cfg


def replfault_oracle(script, impl):
    probs = []
    awaited = set()
    for ws, out in _ops(script, impl):
        o = out.split()
        head = o[0] if o else ''
        if head in ('err', 'panic', 'childfail', 'bad-op', 'CRASH', 'CRASH-skipped', ''):
            probs.append('step failed: %s -> %s' % (' '.join(ws)[:60], out[:160]))
        elif head == 'skipped':
            continue
        elif ws[0] == 'verdict':
            if head != 'ok' and not probs:
                probs.append('verdict: ' + out[:200])
        elif head == 'blocked':
            probs.append('blocked: %s did not complete within the watchdog: %s' % (' '.join(ws)[:40], out[:200]))
        elif head == 'failed':
            probs.append('failed: %s returned an error: %s' % (' '.join(ws)[:40], out[:200]))
        elif ws[0] == 'watchdrop':
            if head == 'notdropped':
                probs.append('notdropped: %s still listed by the primary after %s ms' % (ws[1], ws[2]))
            elif head != 'dropped':
                probs.append('no verdict for %s: %s' % (' '.join(ws), out[:120]))
        elif ws[0] == 'await':
            if head == 'converged':
                awaited.add(ws[1])
            else:
                probs.append('not-converged: healthy replica %s: %s' % (ws[1], out[:400]))
        elif ws[0] == 'topo':
            f = kv(out)
            for r in awaited:
                if f.get(r) != 1:
                    probs.append('topology: converged healthy replica %s is not listed: %s' % (r, out[:120]))
    return probs


def replfault_nontrivial(script, impl):
    return any(l.startswith('fault ') or l.startswith('join ') for l in script) and any(
        (i or '').startswith(('ok n=', 'blocked')) for s, i in zip(script, impl) if s.startswith('load'))


def replfault_stats(results):
    d = {}
    for r in results:
        cls = repl_cfg(r.script).get('class', '?')
        v = [i.split()[0] + (' ' + kv(i).get('op', '') if i.startswith('blocked') else '') for s, i in zip(r.script, r.impl) if s.startswith('verdict') and i]
        key = '%s -> %s' % (cls, ','.join(v))
        d[key] = d.get(key, 0) + 1
    return dict(by_class=d)
