"""oracle, non-triviality rule, statistics and failure analysis for component `applier` (C13).

The oracle is the executable *specification* evaluated on the implementation's output only:
  (1) the sequence of entries handed to the apply callback is, at every moment, a prefix of the primary's log
      from the replica's start position: in order, none skipped, none repeated;
  (2) the reported counters (maxApplied, Replica.lastAppliedSeq, lastAck) never decrease and never exceed what
      has been applied (every log entry numbered <= the reported value has been handed to the callback);
  (3) with a real engine as sink: the replica's data equals the primary's data after exactly that prefix.
`explain` attributes every deviation to a mechanism (used by the strict predicates in lib/findings.py)."""
from oracledefs.common import *
from oracledefs.common import _ops


def _h(t):
    return '' if t in ('=', '-') else t


class Case:
    """parsed script + implementation output of one case"""

    def __init__(self, script, impl):
        self.ok = False
        self.ops = []          # (words, out_words_before_semicolon, counters or None)
        self.L = []
        self.start = 0
        self.sink = 'rec'
        self.applied = None    # final list of (seq, op, key, val) or None when the case has no `applied` op
        self.kind = ''
        for l in script:
            if l.startswith('# case'):
                self.kind = (l.split() + ['', '', ''])[3]
        for ws, out in _ops(script, impl):
            if ws[0] == 'log':
                self.start = int(ws[1])
                self.sink = ws[2]
                n = int(ws[3])
                for i in range(n):
                    seq, op, k, v = ws[4 + 4 * i: 8 + 4 * i]
                    op = int(op) % 256
                    self.L.append((int(seq), op, _h(k), '' if op == 2 else _h(v)))
                self.ok = out.startswith('ok ')
            o = out.split()
            cnt = None
            if ';' in o:
                j = len(o) - 1 - o[::-1].index(';')
                try:
                    cnt = tuple(int(x) for x in o[j + 1: j + 6])
                except ValueError:
                    cnt = None
                if cnt is not None and len(cnt) != 5:
                    cnt = None
                o = o[:j]
            elif o[:1] in (['c'], ['ok']) and len(o) == 6:
                try:
                    cnt = tuple(int(x) for x in o[1:6])
                except ValueError:
                    cnt = None
            if ws[0] == 'applied' and o[:1] == ['applied']:
                self.applied = []
                for e in o[2:]:
                    seq, op, k, v = e.split(':')
                    self.applied.append((int(seq), int(op), _h(k), _h(v)))
            self.ops.append((ws, o, cnt))
        self.shared = any(a[0] == b[0] for a, b in zip(self.L, self.L[1:]))
        self.walshaped = all(b[0] in (a[0], a[0] + 1) for a, b in zip(self.L, self.L[1:]))

    def start_idx(self, s):
        """position of a replica that has applied everything numbered <= s"""
        for i, e in enumerate(self.L):
            if e[0] > s:
                return i
        return len(self.L)

    def message(self, ws, o):
        """log indices of the message of a deliver/deliverz/apply/poll op (None when not index based)"""
        try:
            if ws[0] in ('deliver', 'apply', 'deliverbad'):
                return [int(x) for x in ws[2:]]
            if ws[0] == 'deliverz':
                return [int(x) for x in ws[3:]]
            if ws[0] == 'poll' and o[:1] == ['poll'] and '|' in o:
                return [int(x) for x in o[3:o.index('|')]]
        except ValueError:
            return None
        return None

    def decision(self, ws, o):
        """-> (class, committed) for ops that may apply entries"""
        if ws[0] == 'poll':
            if '|' not in o:
                return ('none', False)
            o = o[o.index('|') + 1:]
        if ws[0] == 'apply':
            if o[:1] != ['ret']:
                return ('none', False)
            return (o[3], o[3] == 'nil')
        if not o:
            return ('none', False)
        if o[0] == 'err':
            return ('err ' + ' '.join(o[1:2]), False)
        return (o[0], o[0] == 'ok')


def _blen(tok):
    """byte length of a (normalised hex / run-length) value token"""
    if tok.startswith('*'):
        return int(tok[1:].split(':')[0])
    return len(tok) // 2


def _fold(entries):
    m = {}
    for seq, op, k, v in entries:
        if op == 2:
            m.pop(k, None)
        else:
            m[k] = v
    return m


def _is_subseq(need, have):
    it = iter(have)
    return all(any(x == y for y in it) for x in need)


def applier_oracle(script, impl):
    c = Case(script, impl)
    probs = []
    for ws, o, cnt in c.ops:
        if o[:1] == ['panic'] or (o and o[0].startswith('CRASH')):
            probs.append('kind=crash %s -> %s' % (' '.join(ws)[:60], ' '.join(o)[:80]))
    if not c.ok or any(ws[0] in ('ser', 'deser', 'raw') for ws, _, _ in c.ops):
        # codec cases (and arbitrary wire entries, which are not genuine messages): round trip + differential only
        return probs + _codec_oracle(c)
    has_reset = any(ws[0] == 'reset' for ws, _, _ in c.ops)
    A = c.applied
    # ---- (0) the sender rule: the selection from `from` is the first <= 100 log entries numbered >= from, in log order
    for ws, o, cnt in c.ops:
        if ws[0] in ('poll', 'select') and o[:1] in (['poll'], ['sel']) and len(o) >= 3 and o[1].isdigit() and o[2].isdigit():
            frm, n = int(o[1]), int(o[2])
            got = [int(x) for x in o[3:3 + n]]
            want = [i for i, e in enumerate(c.L) if e[0] >= frm][:100]
            # response byte cap (8 MiB of key+value bytes): the longest prefix within the cap, the first entry always
            tot, keep = 0, 0
            for j, i in enumerate(want):
                tot += _blen(c.L[i][2]) + _blen(c.L[i][3])
                if j > 0 and tot > 8 * 1024 * 1024:
                    break
                keep = j + 1
            want = want[:keep]
            if got != want:
                probs.append('kind=selection entries from %d: primary selected %d entries %s.., expected %d entries %s..' % (
                    frm, len(got), got[:3], len(want), want[:3]))
                break
    # ---- (1) order: per segment (a segment starts at the header and at every explicit Reset)
    if A is not None:
        seg_start_idx = c.start_idx(c.start)
        seg_from = 0            # position in A where the segment starts
        segs = []
        last_cnt = 0
        for ws, o, cnt in c.ops:
            if cnt is not None:
                last_cnt = cnt[4]
            if ws[0] == 'reset' and o[:1] == ['ok']:
                segs.append((seg_start_idx, seg_from, last_cnt))
                seg_start_idx, seg_from = c.start_idx(int(ws[1])), last_cnt
        segs.append((seg_start_idx, seg_from, len(A)))
        for sidx, a, b in segs:
            got = A[a:b]
            want = c.L[sidx: sidx + len(got)]
            if got != want:
                j = next((i for i, (x, y) in enumerate(zip(got, want)) if x != y), min(len(got), len(want)))
                g = got[j]
                where = [i for i, e in enumerate(c.L) if e == g]
                expect_i = sidx + j
                if any(i < expect_i for i in where):
                    kind = 'order-repeat'
                    what = 'entry #%d (seq %d) handed to the callback again' % (max(i for i in where if i < expect_i), g[0])
                elif any(i > expect_i for i in where):
                    i2 = min(i for i in where if i > expect_i)
                    kind = 'order-skip'
                    what = 'entries #%d..#%d skipped: entry #%d (seq %d) applied' % (expect_i, i2 - 1, i2, g[0])
                else:
                    kind = 'order-foreign'
                    what = 'entry %s is not in the log' % (g,)
                probs.append('kind=%s applied[%d]: %s, expected entry #%d %s' % (
                    kind, a + j, what, expect_i, str(c.L[expect_i])[:80] if expect_i < len(c.L) else '(end of log)'))
    # ---- (2) reported counters
    prev = None
    seg_start = c.start
    for ws, o, cnt in c.ops:
        if ws[0] == 'reset':
            prev = None
            if o[:1] == ['ok']:
                seg_start = int(ws[1])
            continue
        if cnt is None:
            continue
        nxt, mx, ack, la, napp = cnt
        if prev is not None:
            for name, a, b in (('maxApplied', prev[1], mx), ('lastAck', prev[2], ack), ('lastAppliedSeq', prev[3], la)):
                if b < a and not (has_reset and name == 'lastAppliedSeq'):
                    probs.append('kind=decrease %s went from %d to %d at `%s`' % (name, a, b, ' '.join(ws)[:40]))
            if napp < prev[4]:
                probs.append('kind=decrease applied count went from %d to %d' % (prev[4], napp))
        prev = cnt
        if ack > mx:
            probs.append('kind=ack-ahead lastAck %d > maxApplied %d' % (ack, mx))
        if la > mx and not has_reset:
            probs.append('kind=ack-ahead lastAppliedSeq %d > maxApplied %d' % (la, mx))
        if A is not None:
            rep = max(mx, ack) if has_reset else max(mx, ack, la)
            need = [e for e in c.L if seg_start < e[0] <= rep]
            if not has_reset and not _is_subseq(need, A[:napp]):
                miss = next(e for e in need if e not in A[:napp]) if any(e not in A[:napp] for e in need) else need[-1]
                i = c.L.index(miss)
                probs.append('kind=exceeds reported applied sequence %d at `%s` but entry #%d (seq %d) has not been handed to the callback' % (
                    rep, ' '.join(ws)[:30], i, miss[0]))
                break
    # ---- (3) replica data = primary data after the applied prefix
    if c.sink == 'eng' and not has_reset:
        sidx = c.start_idx(c.start)
        for ws, o, cnt in c.ops:
            if ws[0] == 'state' and o[:1] == ['state'] and len(o) >= 3:
                napp = int(o[1])
                got = {}
                for kv in o[3:]:
                    k, v = kv.split(':')
                    got[_h(k)] = _h(v)
                want = _fold(c.L[sidx: sidx + napp])
                if got != want:
                    d = sorted(set(got.items()) ^ set(want.items()))[:3]
                    probs.append('kind=state replica data after %d applied entries differs from the primary prefix state: %s' % (napp, d))
            elif ws[0] == 'state' and o[:2] == ['state', 'err']:
                probs.append('kind=state iterator failed')
    return probs


def _codec_oracle(c):
    """round trip: deser(ser(e)) = e (delete carries no value) for every valid entry within the sanity limits"""
    probs = []
    last = None
    for ws, o, cnt in c.ops:
        if ws[0] == 'ser' and o[:1] == ['ser']:
            last = (ws, o[1])
        elif ws[0] == 'deser' and last is not None and ws[1] == last[1]:
            sw = last[0]
            op = int(sw[2]) % 256
            if op in (1, 2, 3):
                want = 'ok %s:%d:%s:%s' % (sw[1], op, sw[3] if _h(sw[3]) else '=', '=' if op == 2 or not _h(sw[4]) else sw[4])
                if ' '.join(o) != want:
                    probs.append('kind=codec deserialize(serialize(e)) = %s, expected %s' % (' '.join(o)[:80], want[:80]))
            elif o[:1] == ['ok']:
                probs.append('kind=codec entry with unknown operation type %d accepted' % op)
    return probs


def explain(script, impl):
    """Attribute what happened to mechanisms. Returns dict(mech=set, unexplained=[...], shared=bool).
    mech elements: 'shared-inbatch' (a batch holding two entries with one number is abandoned after its first part
    was applied), 'shared-group' (one entry of a transaction accepted under its number: the others never will be),
    'partial-gapin' / 'partial-applyerr' / 'partial-deser' (a batch abandoned in the middle for another reason:
    its applied part is not counted and is applied again by the retransmission)."""
    c = Case(script, impl)
    res = dict(mech=set(), unexplained=[], shared=c.shared)
    A = c.applied
    if not c.ok or A is None:
        res['unexplained'].append('no applied list')
        return res
    if any(ws[0] in ('reset', 'raw') for ws, _, _ in c.ops):
        res['unexplained'].append('case uses reset/raw')
        return res
    frontier = c.start_idx(c.start)
    mult = {}
    for e in c.L:
        mult[e[0]] = mult.get(e[0], 0) + 1
    before = 0
    for ws, o, cnt in c.ops:
        if cnt is None:
            continue
        after = cnt[4]
        sl = A[before:after]
        before = after
        if ws[0] not in ('deliver', 'deliverz', 'deliverbad', 'apply', 'poll'):
            if sl:
                res['unexplained'].append('entries applied during `%s`' % ws[0])
            continue
        msg = c.message(ws, o)
        cls, committed = c.decision(ws, o)
        if msg is None or any(i < 0 or i >= len(c.L) for i in msg):
            if sl:
                res['unexplained'].append('entries applied by an unparsed message')
            continue
        # what was handed over must be the first len(sl) entries of the message ...
        if sl != [c.L[i] for i in msg[:len(sl)]]:
            res['unexplained'].append('applied entries are not the head of the message at `%s`' % ' '.join(ws)[:40])
            continue
        # ... and, number by number, the continuation of the committed prefix (the applier sees numbers only: one
        # entry per number; where the log has several entries under one number it cannot tell them apart)
        if sl:
            if frontier >= len(c.L) or [x[0] for x in sl] != list(range(c.L[frontier][0], c.L[frontier][0] + len(sl))):
                res['unexplained'].append('batch applied at `%s` does not continue the committed prefix at #%d' % (' '.join(ws)[:40], frontier))
                continue
            if any(mult[x[0]] == 1 and x != c.L[frontier + k] for k, x in enumerate(sl) if frontier + k < len(c.L)) and not c.shared:
                res['unexplained'].append('batch applied at `%s` differs from the log' % ' '.join(ws)[:40])
                continue
        if committed:
            if len(sl) != len(msg):
                res['unexplained'].append('committed batch applied %d of %d entries' % (len(sl), len(msg)))
            if sl:
                if any(mult[x[0]] > 1 for x in sl):
                    res['mech'].add('shared-group')   # one member of a transaction applied, the others never will be
                frontier = c.start_idx(sl[-1][0])
        elif sl:
            j = len(sl)
            if cls == 'gapin' and j < len(msg) and msg[j] != msg[j - 1] and c.L[msg[j]][0] == c.L[msg[j - 1]][0]:
                res['mech'].add('shared-inbatch')   # two DIFFERENT log entries under one number
            elif cls == 'gapin':
                res['mech'].add('partial-gapin')
            elif cls in ('err apply', 'err-apply'):
                res['mech'].add('partial-applyerr')
            elif cls in ('err deser', 'err-deser'):
                res['mech'].add('partial-deser')
            else:
                res['unexplained'].append('entries applied by a message answered `%s`' % cls)
    return res


def state_follows_applied(script, impl):
    """every `state` output of an engine case equals the fold of the entries handed to the callback so far (the engine
    did what it was told: a deviation from the primary's prefix state is then a consequence of the order deviation)"""
    c = Case(script, impl)
    if c.applied is None:
        return False
    for ws, o, cnt in c.ops:
        if ws[0] == 'state' and o[:1] == ['state'] and len(o) >= 3 and o[1] != '-':
            napp = int(o[1])
            got = {}
            for kv in o[3:]:
                k, v = kv.split(':')
                got[_h(k)] = _h(v)
            if got != _fold(c.applied[:napp]):
                return False
    return True


def applier_nontrivial(script, impl):
    c = Case(script, impl)
    if not c.ok:
        return False
    if c.kind == 'codec':
        oks = sum(1 for ws, o, _ in c.ops if ws[0] == 'deser' and o[:1] == ['ok'])
        errs = sum(1 for ws, o, _ in c.ops if ws[0] == 'deser' and o[:1] == ['err'])
        return oks >= 3 and errs >= 1
    acc = rej = 0
    for ws, o, cnt in c.ops:
        if ws[0] in ('deliver', 'deliverz', 'poll', 'apply'):
            cls, committed = c.decision(ws, o)
            if committed and cls != 'empty' and c.message(ws, o):
                acc += 1
            elif cls in ('gap', 'gapin', 'err apply', 'err deser', 'err-apply', 'err-deser'):
                rej += 1
    return acc >= 2 and rej >= 1 and c.applied is not None and len(c.applied) >= 3


def applier_stats(results):
    d = dict(case_kinds={}, messages={}, ops={}, shared_logs=0, max_applied=0, polls_cut_at_limit=0, mechanisms={},
             engine_states=0, max_log=0)
    for r in results:
        c = Case(r.script, r.impl)
        d['case_kinds'][c.kind] = d['case_kinds'].get(c.kind, 0) + 1
        d['max_log'] = max(d['max_log'], len(c.L))
        if c.shared:
            d['shared_logs'] += 1
        if c.applied is not None:
            d['max_applied'] = max(d['max_applied'], len(c.applied))
        prev = None
        for ws, o, cnt in c.ops:
            d['ops'][ws[0]] = d['ops'].get(ws[0], 0) + 1
            if ws[0] == 'state' and len(o) > 2:
                d['engine_states'] += 1
            if ws[0] in ('deliver', 'deliverz', 'deliverbad', 'poll', 'apply', 'raw'):
                cls, committed = c.decision(ws, o)
                msg = c.message(ws, o)
                kind = cls
                if cls == 'ok':
                    kind = 'accepted'
                elif cls == 'gap' and msg and prev is not None and all(0 <= i < len(c.L) for i in msg[:1]):
                    kind = 'gap-old/duplicate' if c.L[msg[0]][0] < prev[0] else 'gap-future'
                elif cls == 'gapin' and msg and cnt is not None and prev is not None:
                    j = cnt[4] - prev[4]
                    if 0 < j < len(msg) and all(0 <= i < len(c.L) for i in msg) and msg[j] != msg[j - 1] and c.L[msg[j]][0] == c.L[msg[j - 1]][0]:
                        kind = 'gapin-shared-number'
                    else:
                        kind = 'gapin-hole'
                d['messages'][kind] = d['messages'].get(kind, 0) + 1
                if ws[0] == 'poll' and msg is not None and len(msg) == 100:
                    d['polls_cut_at_limit'] += 1
            if cnt is not None:
                prev = cnt
        if c.ok and c.applied is not None and not any(ws[0] in ('reset', 'raw') for ws, _, _ in c.ops):
            for m in explain(r.script, r.impl)['mech']:
                d['mechanisms'][m] = d['mechanisms'].get(m, 0) + 1
    return d


def applier_monotone_oracle(script, impl):
    """C08 clause only: the numbers a replica REPORTS through the replication protocol (maxApplied, the acknowledged number,
    Replica.lastAppliedSeq) never decrease and never run ahead of maxApplied — whatever the delivery schedule. (Order and
    exactly-once of what is applied is C13's oracle; this one keeps only the `kind=decrease` / `kind=ack-ahead` findings.)"""
    return [p for p in applier_oracle(script, impl) if p.startswith('kind=decrease') or p.startswith('kind=ack-ahead')]
