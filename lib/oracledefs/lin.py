"""oracle, non-triviality rule and statistics for component `lin` (C06): the verdict of the in-process linearizability
checker and of the log replay on a real engine under concurrent clients (implementation-only component)."""
import re
from oracledefs.common import _ops


def lin_oracle(script, impl):
    """every scenario must end with an `ok` verdict: the recorded history is linearizable w.r.t. the per-key register
    specification, every acknowledged write is in the log exactly once, a failed write nowhere."""
    probs = []
    for ws, out in _ops(script, impl):
        if not out.startswith('ok '):
            probs.append('%s: %s' % (ws[0], out[:1200]))
    return probs


def lin_nontrivial(script, impl):
    """a stress scenario that rotated the log at least once while >= 100 operations ran, or the deterministic D19 scenario"""
    for ws, out in _ops(script, impl):
        if ws[0] in ('d19',):
            return True
        m = re.search(r'ops=(\d+) .*walFiles=(\d+)', out)
        if m and int(m.group(1)) >= 100 and int(m.group(2)) >= 2:
            return True
    return False


def lin_stats(results):
    st = dict(ok=0, known=0, bad=0, ops=0, log_files=0, rotation_duplicates=0, scenarios_with_write_errors=0)
    for r in results:
        for ws, out in _ops(r.script, r.impl):
            st['ok' if out.startswith('ok ') else 'known' if out.startswith('known ') else 'bad'] += 1
            m = re.search(r'ops=(\d+) writeErrs=(\d+) logRecords=\d+ walFiles=(\d+)', out)
            if m:
                st['ops'] += int(m.group(1))
                st['log_files'] += int(m.group(3))
                st['scenarios_with_write_errors'] += 1 if int(m.group(2)) else 0
            st['rotation_duplicates'] += out.count('dup:')
    return st
