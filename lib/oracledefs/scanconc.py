"""oracle for component `scanconc` (C05 concurrent clause, implementation-only): the harness verdict per scenario"""
import re
from oracledefs.common import _ops


def scanconc_oracle(script, impl):
    probs = []
    for ws, out in _ops(script, impl):
        if ws[0] == 'scan' and not out.startswith('ok'):
            probs.append('%s: %s' % (' '.join(ws), out[:300]))
    return probs


def _nums(out):
    return {k: int(v) for k, v in re.findall(r'(\w+)=(\d+)', out)}


def scanconc_nontrivial(script, impl):
    """the scan returned >= 5 keys while >= 5 writes happened during it"""
    for ws, out in _ops(script, impl):
        if out.startswith('ok '):
            d = _nums(out)
            return d.get('returned', 0) >= 5 and d.get('writes', 0) >= 5
    return False


def scanconc_stats(results):
    d = dict(scenarios=0, keys_returned=0, writes_during_scans=0, modes={}, kinds={})
    for r in results:
        for ws, out in _ops(r.script, r.impl):
            d['scenarios'] += 1
            for f in ws:
                if f.startswith('mode='):
                    d['modes'][f[5:]] = d['modes'].get(f[5:], 0) + 1
                if f.startswith('kind='):
                    d['kinds'][f[5:]] = d['kinds'].get(f[5:], 0) + 1
            if out.startswith('ok '):
                n = _nums(out)
                d['keys_returned'] += n.get('returned', 0)
                d['writes_during_scans'] += n.get('writes', 0)
    return d
