"""oracle, non-triviality rule and statistics for component `crash` (C02, C03, C10)"""
import zlib
from oracledefs.common import _ops, _kb


def _hx(b):
    return b.hex() if b else '='


def _digest(m):
    parts = ['%s:%s' % (_hx(k), _hx(v)) for k, v in sorted(m.items())]
    return '%d/%d' % (len(parts), zlib.crc32(';'.join(parts).encode()) & 0xffffffff)


def _workload(script):
    """-> (sync, ops) ; ops = list of ('w', dict-update list) or ('m',) for maintenance"""
    sync, ops = 0, []
    for l in script:
        ws = l.split()
        if ws[0] == 'cfg':
            sync = int(ws[1].split('=')[1])
        elif ws[0] == 'w':
            if ws[1] == 'put':
                ops.append(('w', [(_kb(ws[2]), _kb(ws[3]))]))
            elif ws[1] == 'del':
                ops.append(('w', [(_kb(ws[2]), None)]))
            elif ws[1] == 'tx':
                t = ws[3:]
                upd = {}
                for i in range(0, len(t) - 2, 3):
                    upd[_kb(t[i + 1])] = None if t[i] == 'd' else _kb(t[i + 2])
                ops.append(('w', sorted(upd.items())) if upd else ('m',))
            elif ws[1] == 'reopen':
                ops.append(('r',))
            else:
                ops.append(('m',))
    return sync, ops


def crash_oracle(script, impl):
    """Every kill point must recover exactly the state after some prefix of WHOLE writes (a transaction is one write):
    not more than were issued, not fewer than were made durable (synchronous logging: acknowledged; any mode: before a
    completed clean close), with the matching last sequence number; nothing moved aside; and the database must keep
    what is written after the recovery."""
    probs = []
    sync, ops = _workload(script)
    # prefix states
    states, m = [], {}
    states.append((_digest(m), 0))
    nw = 0
    for o in ops:
        if o[0] == 'w':
            for k, v in o[1]:
                if v is None:
                    m.pop(k, None)
                else:
                    m[k] = v
            nw += 1
            states.append((_digest(m), nw))
    for ws, out in _ops(script, impl):
        if ws[0] == 'plan' and not out.startswith('plan '):
            probs.append('dry run failed: ' + out[:200])
        if ws[0] != 'crashall':
            continue
        o = out.split()
        if o[:1] != ['crash']:
            probs.append('crash enumeration failed: ' + out[:200])
            continue
        for t in o[2:]:
            f = t.split(':')
            k, site = f[0], f[1]
            if len(f) < 5:
                probs.append('kill point %s (%s): %s' % (k, site, ':'.join(f[2:])[:120]))
                continue
            acked, dig, post = int(f[2]), f[3], ':'.join(f[4:])
            if '+backup' in dig:
                probs.append('kill point %s (%s): recovery moved log files aside' % (k, site))
                dig = dig.replace('+backup', '')
            cnt, crc, seq = dig.split('/')
            issued = sum(1 for x in ops[:acked + 1] if x[0] == 'w')
            durable = sum(1 for x in ops[:acked] if x[0] == 'w') if sync == 2 else 0
            last_close = max([i for i, x in enumerate(ops[:acked]) if x[0] == 'r'], default=-1)
            durable = max(durable, sum(1 for x in ops[:last_close + 1] if x[0] == 'w'))
            ok = [n for (d, n) in states if d == '%s/%s' % (cnt, crc) and durable <= n <= issued]
            if not ok:
                match = [n for (d, n) in states if d == '%s/%s' % (cnt, crc)]
                probs.append('kill point %s (%s, %d ops acknowledged, sync=%d): recovered state %s is %s (allowed: prefix of %d..%d writes)' % (
                    k, site, acked, sync, dig, ('the state after %s writes' % match) if match else 'NOT a prefix of the write history', durable, issued))
            elif int(seq) not in ok and not (int(seq) == 0 and 0 in ok):
                probs.append('kill point %s (%s): recovered state is the prefix %s but last sequence is %s' % (k, site, ok, seq))
            if post != 'ok':
                probs.append('kill point %s (%s): after the recovery, further writes + clean reopen: %s' % (k, site, post))
            if len(probs) > 6:
                return probs
    return probs


def crash_nontrivial(script, impl):
    """at least one kill point recovers a non-empty proper prefix (something survived, something was lost or pending)"""
    for ws, out in _ops(script, impl):
        if ws[0] == 'crashall':
            digs = set(t.split(':')[3] for t in out.split()[2:] if t.count(':') >= 4)
            return len(digs) >= 3
    return False


def crash_stats(results):
    d = dict(kill_points=0, distinct_sites=set(), workloads=0, sync_modes={}, distinct_recovered_states=0, post_not_ok=0)
    for r in results:
        d['workloads'] += 1
        for ws, out in _ops(r.script, r.impl):
            if ws[0] == 'cfg':
                d['sync_modes'][ws[1]] = d['sync_modes'].get(ws[1], 0) + 1
            if ws[0] == 'crashall':
                toks = out.split()[2:]
                d['kill_points'] += len(toks)
                digs = set()
                for t in toks:
                    f = t.split(':')
                    d['distinct_sites'].add(f[1])
                    if len(f) >= 5:
                        digs.add(f[3])
                        if f[4] != 'ok':
                            d['post_not_ok'] += 1
                d['distinct_recovered_states'] += len(digs)
    d['distinct_sites'] = sorted(d['distinct_sites'])
    return d
