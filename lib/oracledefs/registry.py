"""oracle, non-triviality rule and statistics for component `registry` (C17).

The specification (independent of the Go code and of the Lean model): a small state machine over the script that
predicts the answer of every call —
  * a transaction holds the database lock from a successful begin until its FIRST commit/rollback (by the client, by
    a racing second finisher, by the stale/connection cleanup or by the shutdown), never longer, never twice;
  * a begin that cannot get the lock before its deadline fails with a timeout and leaves NOTHING behind (the late
    worker rolls the transaction back as soon as it gets it; a pending writer keeps new readers out meanwhile);
  * calls on a finished transaction answer "closed", calls on a dropped handle "notfound", both without side effect;
  * an invalid key is rejected without touching the handle;
  * after CleanupStaleTransactions (explicit, or implied by the service's BeginTransaction) every handle whose age or idle
    time certainly exceeds its limit is gone and rolled back;
  * whenever no transaction is alive the probe (a fresh read-write transaction, 5 s deadline) succeeds and the manager
    reports 0 active transactions.
Timing that cannot be predicted from the script (a handle that MAY have expired) stops the prediction until the next `new`.
"""
from oracledefs.common import *
from oracledefs.common import _ops

ANY = object()
TINY = 1000   # limits below this (ms) may expire without a sleep when the machine is slow


class _Spec:
    def __init__(self, ro, rw, idle):
        self.ttl = {'ro': ro, 'rw': rw}
        self.idle = idle
        self.db = {}
        self.reg = {}       # client -> tx
        self.refs = {}      # client -> tx
        self.txs = []       # every transaction ever begun through the registry
        self.holder = None
        self.pending = []   # modes of late Begin workers still waiting for the lock
        self.uncertain = False
        self.shut = False

    # ----- lock
    def active(self):
        return [t for t in self.txs if t['active']]

    def compatible(self, mode):
        act = self.active()
        if mode == 'rw':
            return not act and self.holder is None
        return not any(t['mode'] == 'rw' for t in act) and self.holder != 'rw' and 'rw' not in self.pending

    def free(self):
        return not self.active() and self.holder is None

    def settle(self):
        """late workers get the lock as soon as it is compatible and roll back at once"""
        act = self.active()
        if not any(t['mode'] == 'rw' for t in act) and self.holder != 'rw':
            if not act and self.holder is None:
                self.pending = []
            else:
                self.pending = [m for m in self.pending if m == 'rw']

    def finish(self, t, commit):
        if not t['active']:
            return False
        t['active'] = False
        if commit and t['mode'] == 'rw':
            for k, v in t['buf'].items():
                if v is None:
                    self.db.pop(k, None)
                else:
                    self.db[k] = v
        self.settle()
        return True

    def sleep(self, ms):
        for t in self.txs:
            t['age'] += ms
            t['idle'] += ms

    def cleanup(self):
        for c, t in list(self.reg.items()):
            lim = self.ttl[t['mode']]
            if t['age'] > lim or t['idle'] > self.idle:
                self.finish(t, False)
                del self.reg[c]
            elif lim < TINY or self.idle < TINY:
                self.uncertain = True

    def view(self, t, k):
        if k in t['buf']:
            return t['buf'][k]
        return self.db.get(k)


def _keyok(k):
    return k not in ('=', '-', 'big')


def _fmt_get(v):
    return 'nf' if v is None else 'found ' + (v or '=')


def registry_oracle(script, impl):
    probs = []
    s = None

    def bad(ws, out, want):
        probs.append('%s: got "%s", specification says "%s"' % (' '.join(ws)[:60], out[:100], want))

    for ws, out in _ops(script, impl):
        op = ws[0]
        if out.startswith('panic') or out.startswith('CRASH'):
            probs.append('%s: %s' % (' '.join(ws)[:60], out[:200]))
            continue
        if op == 'new':
            kv = dict(w.split('=') for w in ws[1:])
            s = _Spec(int(kv['ro']), int(kv['rw']), int(kv['idle']))
            if out != 'ok':
                probs.append('new: ' + out[:100])
            continue
        if op == 'twoconn':
            if out != 'twoconn ok':
                probs.append('connection-cleanup-incomplete: %s' % out[:200])
            continue
        if op == 'lateidle':
            if out != 'lateidle ok':
                probs.append('abandoned-transaction-not-reaped: %s' % out[:200])
            continue
        if op == 'idstorm':
            if not out.startswith('idstorm ok'):
                probs.append('handle-not-unique: %s' % out[:200])
            continue
        if s is None or s.uncertain:
            continue
        if op in ('begin', 'beginbg'):
            c, mode = ws[1], ws[2]
            s.cleanup()
            if s.uncertain:
                continue
            if s.compatible(mode):
                if out != 'ok':
                    bad(ws, out, 'ok')
                    s.uncertain = True
                    continue
                t = dict(mode=mode, active=True, buf={}, age=0, idle=0)
                s.txs.append(t)
                s.reg[c] = t
            else:
                if out != 'err timeout':
                    bad(ws, out, 'err timeout (lock held: %d active, holder %s, pending %s)' % (len(s.active()), s.holder, s.pending))
                    s.uncertain = True
                    continue
                s.pending.append(mode)
        elif op == 'hold':
            if s.holder is not None:
                want = 'err already-holding'
            elif s.compatible(ws[1]):
                want = 'ok'
                s.holder = ws[1]
            else:
                want = 'err timeout'
                s.pending.append(ws[1])
            if out != want:
                bad(ws, out, want)
                s.uncertain = True
        elif op == 'release':
            want = 'ok' if s.holder is not None else 'err not-holding'
            s.holder = None
            s.settle()
            if out != want:
                bad(ws, out, want)
        elif op in ('txget', 'txput', 'txdel'):
            c, k = ws[1], ws[2]
            t = s.reg.get(c)
            if t is None:
                want = 'err notfound'
            elif op != 'txget' and t['mode'] == 'ro':
                want = 'err readonly'
            elif not _keyok(k):
                want = 'err invalidkey'
            elif not t['active']:
                want = 'nf' if op == 'txget' else 'err closed'
            else:
                t['idle'] = 0
                if op == 'txget':
                    v = s.view(t, k)
                    want = None if v is ANY else _fmt_get(v)
                else:
                    want = 'ok'
                    t['buf'][k] = (ws[3] if ws[3] != '=' else '') if op == 'txput' else None
            if want is not None and out != want:
                bad(ws, out, want)
        elif op in ('commit', 'rollback'):
            c = ws[1]
            t = s.reg.pop(c, None)
            if t is None:
                want = 'err notfound'
            elif s.finish(t, op == 'commit'):
                want = 'ok'
            else:
                want = 'err closed'
            if out != want:
                bad(ws, out, want)
        elif op == 'race':
            c, n = ws[1], int(ws[2])
            t = s.reg.pop(c, None)
            f = dict(x.split('=') for x in out.split()[1:]) if out.startswith('race ') else {}
            try:
                ok, closed, nfd, other = int(f['ok']), int(f['closed']), int(f['notfound']), int(f['other'])
            except (KeyError, ValueError):
                probs.append('race: unreadable answer ' + out[:80])
                continue
            want_ok = 1 if (t is not None and t['active']) else 0
            if ok != want_ok or other != 0 or ok + closed + nfd != n or (t is None and nfd != n):
                bad(ws, out, 'exactly %d successful finish, the others closed/notfound' % want_ok)
            if t is not None and t['active']:
                # commit or rollback may have won: the written keys are unknown from here on
                t['active'] = False
                if t['mode'] == 'rw':
                    for k in t['buf']:
                        s.db[k] = ANY
                s.settle()
        elif op == 'ref':
            t = s.reg.get(ws[1])
            want = 'ok' if t is not None else 'nf'
            if t is not None:
                s.refs[ws[1]] = t
            if out != want:
                bad(ws, out, want)
        elif op == 'refop':
            t = s.refs.get(ws[1])
            if t is None:
                want = 'noref'
            elif not t['active']:
                want = 'err closed'
            elif ws[2] == 'get':
                t['idle'] = 0
                v = s.view(t, '6b31')
                want = None if v is ANY else _fmt_get(v)
            elif ws[2] == 'put':
                t['idle'] = 0
                if t['mode'] == 'ro':
                    want = 'err readonly'
                else:
                    want = 'ok'
                    t['buf']['6b31'] = '63'
            else:
                s.finish(t, ws[2] == 'commit')
                want = 'ok'
            if want is not None and out != want:
                bad(ws, out, want)
        elif op == 'sleep':
            s.sleep(int(ws[1]))
        elif op == 'cleanup':
            s.cleanup()
        elif op == 'cleanconn':
            t = s.reg.pop(ws[1], None)
            if t is not None:
                s.finish(t, False)
        elif op == 'shutdown':
            if s.shut:
                want = 'err already-shut-down'
            else:
                want = 'ok'
                s.shut = True
                for c, t in list(s.reg.items()):
                    s.finish(t, False)
                s.reg = {}
            if out != want:
                bad(ws, out, want)
        elif op == 'batchbad':
            # refused as a whole, nothing applied, and the handler's own transaction is ended (the probe that follows shows it)
            if out != 'err invalid':
                bad(ws, out, 'err invalid')
        elif op == 'probe':
            if s.free():
                if out != 'probe ok':
                    bad(ws, out, 'probe ok (no transaction is alive: the database lock leaked)')
                    s.uncertain = True
            else:
                if out != 'probe BLOCKED':
                    bad(ws, out, 'probe BLOCKED (%d transactions alive)' % len(s.active()))
                    s.uncertain = True
                else:
                    s.uncertain = True     # the harness skips the rest of the case after a blocked probe
        elif op == 'active':
            want = len(s.active()) + (1 if s.holder else 0) + len(s.pending)
            if out != 'active %d' % want:
                bad(ws, out, 'active %d' % want)
    return probs


def registry_nontrivial(script, impl):
    """a begin timed out under contention, or a handle was finished twice / raced, or an abandoned handle was collected,
    and a probe followed"""
    outs = [(ws, out) for ws, out in _ops(script, impl)]
    ev = any(out == 'err timeout' for ws, out in outs if ws[0] in ('begin', 'beginbg')) or \
        any(ws[0] in ('race', 'cleanup', 'cleanconn', 'shutdown', 'refop') for ws, out in outs) or \
        any(out == 'err invalidkey' for ws, out in outs)
    return ev and any(out == 'probe ok' for ws, out in outs if ws[0] == 'probe')


def registry_stats(results):
    d = dict(begin_timeouts=0, probes_ok=0, probes_blocked=0, races=0, cleanups=0, conn_cleanups=0, shutdowns=0,
             invalid_key_calls=0, closed_answers=0, notfound_answers=0, prediction_stopped=0)
    for r in results:
        for ws, out in _ops(r.script, r.impl):
            if ws[0] in ('begin', 'beginbg') and out == 'err timeout':
                d['begin_timeouts'] += 1
                d['internal_limit_timeouts'] = d.get('internal_limit_timeouts', 0) + (ws[0] == 'beginbg')
            elif ws[0] == 'probe':
                d['probes_ok' if out == 'probe ok' else 'probes_blocked'] += 1
            elif ws[0] == 'race':
                d['races'] += 1
            elif ws[0] == 'cleanup':
                d['cleanups'] += 1
            elif ws[0] == 'cleanconn':
                d['conn_cleanups'] += 1
            elif ws[0] == 'shutdown':
                d['shutdowns'] += 1
            if out == 'err invalidkey':
                d['invalid_key_calls'] += 1
            elif out == 'err closed':
                d['closed_answers'] += 1
            elif out == 'err notfound':
                d['notfound_answers'] += 1
    return d
