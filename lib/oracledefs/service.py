"""oracle, non-triviality rules and statistics for components `service` / `replica` (C16, C19).

The oracle is the executable SPECIFICATION, evaluated on the implementation's output only (independent of the Lean
model): an abstract map + the documented request limits + the handle discipline + the read-only rules.

  * svc result = embedded result (the twin engine executed the translated calls), modulo the wording of the refusal of a
    write on a read-only transaction;
  * a request is rejected by the service's validation iff it is outside the documented limits (key 1..4096 bytes,
    value <= 10 MB, batch <= 1000 operations of known type) or names a handle that is not open;
  * every rejected call leaves the data as it was (state digest before == after, and == the abstract map);
  * on a read-only engine every client mutator is rejected with a read-only error, replicated apply still works,
    reads are answered from the abstract map;
  * a handle is unusable after commit / rollback; unknown handles are rejected;
  * scans return the specified filter of the abstract view for the option combination;
  * GetNodeInfo says what the node is.
Problems are strings `[<line>] <kind>: <script line> | <impl line>`.
"""
import zlib
from oracledefs.common import *
from oracledefs.common import _ops

MAX_KEY, MAX_VALUE, MAX_BATCH = 4096, 10 * 1024 * 1024, 1000
MARKER = b'__compact_marker__'
RO_ERRS = ('err:readonly', 'err:rotx', 'err:rotx-svc')
VALIDATION = ('err:keysize', 'err:valuesize', 'err:batchsize', 'err:badop', 'err:nohandle')


def _tok(s):
    """byte token -> bytes"""
    if s in ('=', '-'):
        return b''
    if s.startswith('*'):
        rest, suffix = s[1:], ''
        if '+' in rest:
            rest, suffix = rest.split('+', 1)
        n, b = rest.split(':', 1)
        return bytes.fromhex(b) * int(n) + (bytes.fromhex(suffix) if suffix else b'')
    return bytes.fromhex(s)


def _ob(b):
    if len(b) == 0:
        return '='
    if len(b) > 40:
        return '#%d.%d' % (len(b), zlib.crc32(b))
    return b.hex()


def _hx(b):
    return b.hex() if b else '='


def _digest2(m):
    live = sorted((k, v) for k, v in m.items() if v is not None)
    txt = ';'.join('%s:%s' % (_hx(k), _ob(v)) for k, v in live)
    return '%d.%d' % (len(live), zlib.crc32(txt.encode()))


def _dg(d):
    """'<n>.<crc>.<lastseq>' -> '<n>.<crc>' (the sequence number is compared by the differential run)"""
    p = d.split('.')
    return '.'.join(p[:2]) if len(p) == 3 else d


def _scan_spec(view, f):
    """view: dict key -> value|None (None = deleted); f = [prefix, suffix, start, end, limit] tokens"""
    pfx, sfx, lo, hi = (_tok(x) for x in f[:4])
    lim = int(f[4])
    if pfx and sfx:
        pred = lambda k: k.startswith(pfx) and k.endswith(sfx)
    elif pfx:
        pred = lambda k: k.startswith(pfx)
    elif sfx:
        pred = lambda k: k.endswith(sfx)
    elif lo or hi:
        pred = lambda k: (not lo or k >= lo) and (not hi or k < hi)
    else:
        pred = lambda k: True
    out = [(k, v) for k, v in sorted(view.items()) if v is not None and pred(k)]
    if lim > 0:
        out = out[:lim]
    if not out:
        return 'scan:0'
    return 'scan:%d:%s' % (len(out), ','.join('%s:%s' % (_hx(k), _ob(v)) for k, v in out))


def _get_spec(v):
    return 'nf' if v is None else 'found:' + _ob(v)


def _parse(out):
    """'svc=A emb=B [st=P/Q]' -> (A, B, P, Q)"""
    d = {}
    for w in out.split():
        if '=' in w and w.split('=', 1)[0] in ('svc', 'emb', 'st'):
            k, v = w.split('=', 1)
            d[k] = v
    pre = post = None
    if 'st' in d and '/' in d['st']:
        pre, post = d['st'].split('/', 1)
    return d.get('svc'), d.get('emb'), pre, post


def _norm(r):
    return 'err:rotx' if r == 'err:rotx-svc' else r


def _batch_ops(ws):
    return [(ws[i], _tok(ws[i + 1]), _tok(ws[i + 2])) for i in range(0, len(ws) - 2, 3)]


def _key_bad(k):
    return len(k) == 0 or len(k) > MAX_KEY


class _Tx:
    def __init__(self, ro):
        self.ro, self.buf = ro, {}


def service_oracle(script, impl):
    probs = []
    m = {}                # abstract map: key -> value | None
    ro = closed = False
    mode = 'none'
    txs, etxs = {}, {}    # open service handles / embedded handles
    dead = set()          # finished service handles
    n = 0

    def bad(kind, s, o):
        probs.append('[%d] %s: %s | %s' % (n, kind, ' '.join(s)[:160], (o or '')[:200]))

    for ws, out in _ops(script, impl):
        n += 1
        if out.startswith('panic') or out.startswith('CRASH'):
            bad('crash', ws, out)
            continue
        op = ws[0]
        if op == 'open':
            kv = dict(w.split('=', 1) for w in ws[1:] if '=' in w)
            m, ro, closed, mode = {}, kv.get('ro') == '1', False, kv.get('mode', 'none')
            txs, etxs, dead = {}, {}, set()
            if out != 'ok':
                bad('open', ws, out)
            continue
        if out == 'blocked' or out == 'not-open' or out == 'skipped':
            continue
        if out.startswith('svc=err:hung'):
            bad('hung: a request that may not wait for anything did not return (a lock is held that the lock discipline does not '
                'account for: e.g. a transaction the engine downgraded to read-only still holding the write lock)', ws, out)
            continue
        if out.startswith('svc=err:apply-blocked'):
            bad('apply: a replicated entry was not applied within 5 s (the applier waits for something a client holds: a replica must '
                'keep applying replicated operations while it serves reads)', ws, out)
            continue
        if op == 'readonly':
            ro = ws[1] == 'on'
            continue
        if op == 'close':
            closed = True
            continue
        if op == 'probe':
            if not out.startswith('probe facade=0 rpc=0'):
                bad('api-surface: exported method / RPC outside the API table', ws, out)
            if 'changed1:ro1' in out:
                bad('readonly: an exported method outside the API table changed the data of a read-only engine', ws, out)
            continue
        if op == 'scancancel':
            if out != 'scancancel ok':
                bad('scancancel', ws, out)
            continue
        if op == 'scanrace':
            # a scan open while a batch arrives shows the state before the batch, never a mix; the batch is applied afterwards
            if out != 'scanrace atomic-old':
                bad('scan-atomicity: a streaming scan that was open while a batch was committed did not show the state before the '
                    'batch (the embedded scan runs inside a read-only transaction: no commit falls between two of its pairs)', ws[:3], out)
            if out.startswith('scanrace atomic') or out.startswith('scanrace mixed'):
                for t, k, v in _batch_ops(ws[2:]):
                    m[k] = None if t == 'd' else v
            continue
        if op == 'dump':
            d = dict(w.split('=', 1) for w in out.split()[1:] if '=' in w)
            if d.get('svc') != d.get('emb'):
                bad('dump: engine behind the service and embedded twin differ', ws, out)
            if not closed and _dg(d.get('svc', '')) != _digest2(m):
                bad('dump: data differs from the abstract map (want %s)' % _digest2(m), ws, out)
            continue
        svc, emb, pre, post = _parse(out)
        if svc is None:
            bad('format', ws, out)
            continue
        # ---- generic rules
        if emb != '-' and _norm(svc) != _norm(emb):
            bad('svc!=emb', ws, out)
        if pre is not None and pre != post:
            bad('rejected-with-effect: state changed by a call that returned an error', ws, out)
        if pre is not None and not closed and _dg(pre) != _digest2(m):
            bad('state: data before the call differs from the abstract map (want %s)' % _digest2(m), ws, out)
        ok = not svc.startswith('err:')
        name, f = (ws[1], ws[2:]) if op in ('rpc', 'emb') else (op, ws[1:])

        def expect_reject(outside, what):
            """validation: rejected iff outside the limits"""
            if outside and ok:
                bad('limit: request outside the limits accepted (%s)' % what, ws, out)
            if not outside and svc in VALIDATION[:4]:
                bad('limit: request within the documented limits rejected', ws, out)
            if not outside and svc == 'err:transport-size':
                bad('limit: request within the documented limits refused by the transport (the server\'s gRPC message-size limit is below '
                    'the documented 10 MB value limit)', ws, out)

        def mutator_on_replica():
            if ro and not closed and ok:
                bad('readonly: client mutation accepted on a read-only engine', ws, out)
            if ro and not closed and not ok and svc not in RO_ERRS and svc not in VALIDATION:
                bad('readonly: client mutation refused with a non read-only error', ws, out)

        if op == 'apply':
            ty, k, v = int(f[0]), _tok(f[1]), _tok(f[2])
            if ty in (1, 2, 3):
                if not ok and not closed:
                    bad('apply: replicated entry not applied', ws, out)
                if ok:
                    m[k] = None if ty == 2 else v
            elif ok:
                bad('apply: unknown entry type accepted', ws, out)
            continue
        if op == 'emb':
            if name in ('Put', 'Delete', 'ApplyBatch'):
                mutator_on_replica()
                if ok:
                    if name == 'Put':
                        m[_tok(f[0])] = _tok(f[1])
                    elif name == 'Delete':
                        m[_tok(f[0])] = None
                    else:
                        for t, k, v in _batch_ops(f[1:]):
                            m[k] = None if t == 'd' else v
            elif name in ('PutInternal', 'DeleteInternal', 'ApplyBatchInternal'):
                if not ok and not closed:
                    bad('internal: replication entry point refused', ws, out)
                if ok:
                    if name == 'PutInternal':
                        m[_tok(f[0])] = _tok(f[1])
                    elif name == 'DeleteInternal':
                        m[_tok(f[0])] = None
                    else:
                        for t, k, v in _batch_ops(f[1:]):
                            m[k] = None if t == 'd' else v
            elif name == 'Get':
                if not closed and svc != _get_spec(m.get(_tok(f[0]))):
                    bad('read: embedded Get differs from the abstract map (want %s)' % _get_spec(m.get(_tok(f[0]))), ws, out)
            elif name == 'IsReadOnly':
                if svc != 'ro%d' % (1 if ro else 0):
                    bad('readonly: IsReadOnly', ws, out)
            elif name == 'Scan':
                if not closed and svc != _scan_spec(m, f):
                    bad('scan: embedded scan differs from the specification', ws, out)
            elif name == 'BeginTransaction':
                if svc.startswith('tx:'):
                    etxs[svc[3:]] = _Tx(f[0] == 'ro' or ro)
            elif name == 'TxIsReadOnly':
                t = etxs.get(f[0])
                if t and svc != 'ro%d' % (1 if t.ro else 0):
                    bad('readonly: a transaction begun on a read-only engine must be read-only', ws, out)
            elif name in ('TxPut', 'TxDelete'):
                t = etxs.get(f[0])
                if t:
                    if t.ro and ok:
                        bad('readonly: write accepted by a read-only transaction', ws, out)
                    if t.ro and not ok and svc != 'err:rotx':
                        bad('readonly: write on a read-only transaction refused with another error', ws, out)
                    if ok:
                        t.buf[_tok(f[1])] = _tok(f[2]) if name == 'TxPut' else None
            elif name == 'TxGet':
                t = etxs.get(f[0])
                if t and not closed:
                    k = _tok(f[1])
                    want = _get_spec(t.buf[k] if k in t.buf else m.get(k))
                    if svc != want:
                        bad('read: embedded TxGet (want %s)' % want, ws, out)
            elif name in ('TxCommit', 'TxRollback'):
                t = etxs.pop(f[0], None)
                if t and ok and name == 'TxCommit':
                    m.update(t.buf)
            continue
        # ---- rpc
        if name == 'Get':
            k = _tok(f[0])
            expect_reject(_key_bad(k), 'key %d bytes' % len(k))
            if ok and not closed and svc != _get_spec(m.get(k)):
                bad('read: Get differs from the abstract map (want %s)' % _get_spec(m.get(k)), ws, out)
        elif name in ('Put', 'Delete'):
            k = _tok(f[0])
            v = _tok(f[1]) if name == 'Put' else b''
            outside = _key_bad(k) or len(v) > MAX_VALUE
            expect_reject(outside, 'key %d value %d bytes' % (len(k), len(v)))
            if not outside:
                mutator_on_replica()
            if ok:
                m[k] = v if name == 'Put' else None
        elif name == 'BatchWrite':
            ops = _batch_ops(f[1:])
            outside = len(ops) > MAX_BATCH or any(_key_bad(k) or (t == 'p' and len(v) > MAX_VALUE) or t not in ('p', 'd') for t, k, v in ops)
            expect_reject(outside, '%d operations' % len(ops))
            if not outside and ops:
                mutator_on_replica()
            if ok:
                for t, k, v in ops:
                    m[k] = None if t == 'd' else v
        elif name == 'Compact':
            if f[0] == '1':
                mutator_on_replica()
            # a compaction request changes no data: nothing to update
        elif name == 'Scan':
            if ok and not closed and svc != _scan_spec(m, f):
                bad('scan: result differs from the specification (want %s)' % _scan_spec(m, f)[:120], ws, out)
        elif name == 'GetStats':
            live = [(k, v) for k, v in m.items() if v is not None]
            want = 'stats:%d:%d' % (len(live), sum(len(k) + len(v) for k, v in live))
            if ok and not closed and svc != want:
                bad('stats: key count / size (want %s)' % want, ws, out)
        elif name == 'GetNodeInfo':
            role = mode if mode in ('primary', 'replica') else 'standalone'
            primary = {'primary': ':50053', 'replica': 'primary.example:50052'}.get(role, '-')
            want = 'node:%s:%s:ro%d:replicas%d:seq0' % (role, primary, 1 if ro else 0, 1 if role == 'replica' else 0)
            if svc != want:
                bad('nodeinfo: not what the node is (want %s)' % want, ws, out)
        elif name == 'BeginTransaction':
            if svc.startswith('tx:'):
                h = svc[3:]
                if h in txs or h in dead:
                    bad('handle: a handle was issued twice', ws, out)
                txs[h] = _Tx(f[0] == 'ro' or ro)
            elif not closed:
                bad('begin: refused', ws, out)
        else:
            # addressed by handle
            h = f[0]
            t = txs.get(h)
            if t is None:
                if svc != 'err:nohandle':
                    bad('handle: %s handle accepted' % ('finished' if h in dead else 'unknown'), ws, out)
                continue
            if svc == 'err:nohandle':
                bad('handle: open handle not found', ws, out)
                continue
            if name in ('CommitTransaction', 'RollbackTransaction'):
                del txs[h]
                dead.add(h)
                if ok and name == 'CommitTransaction':
                    m.update(t.buf)
            elif name in ('TxPut', 'TxDelete'):
                k = _tok(f[1])
                v = _tok(f[2]) if name == 'TxPut' else b''
                if t.ro:
                    if ok:
                        bad('readonly: write accepted by a read-only transaction', ws, out)
                    elif svc not in RO_ERRS:
                        bad('readonly: write on a read-only transaction refused with another error', ws, out)
                else:
                    expect_reject(_key_bad(k) or len(v) > MAX_VALUE, 'key %d value %d bytes' % (len(k), len(v)))
                    if ok:
                        t.buf[k] = v if name == 'TxPut' else None
            elif name == 'TxGet':
                k = _tok(f[1])
                expect_reject(_key_bad(k), 'key %d bytes' % len(k))
                if ok and not closed:
                    want = _get_spec(t.buf[k] if k in t.buf else m.get(k))
                    if svc != want:
                        bad('read: TxGet (want %s)' % want, ws, out)
            elif name == 'TxScan':
                if ok and not closed:
                    view = dict(m)
                    view.update(t.buf)
                    if svc != _scan_spec(view, f[1:]):
                        bad('scan: TxScan differs from the specification (want %s)' % _scan_spec(view, f[1:])[:120], ws, out)
    return probs


def _lines(script, impl):
    return [(ws, out) for ws, out in _ops(script, impl)]


def service_nontrivial(script, impl):
    """C19: at least one validation rejection or handle rejection, one successful write, and a non-empty scan or a
    successful operation by handle"""
    rej = wrote = deep = False
    for ws, out in _lines(script, impl):
        if ws[0] != 'rpc':
            continue
        svc = _parse(out)[0] or ''
        if svc in VALIDATION:
            rej = True
        if ws[1] in ('Put', 'BatchWrite', 'CommitTransaction') and svc == 'ok':
            wrote = True
        if (ws[1] in ('Scan', 'TxScan') and svc.startswith('scan:') and svc != 'scan:0') or (ws[1] in ('TxGet', 'TxPut') and not svc.startswith('err:')):
            deep = True
    return rej and wrote and deep


def service_lock_oracle(script, impl):
    """C17 on the service scripts: a request that may not wait for anything (the lock model of the generator: wouldBlock) returned -
    no handler leaves a transaction open behind it (streaming scan with a client that goes away, refused commits, batches)"""
    probs = []
    for ws, out in _lines(script, impl):
        if (out or '').startswith('svc=err:hung') or (out or '').startswith('scanrace blocked'):
            probs.append('lock-not-released: %s -> %s' % (' '.join(ws)[:60], (out or '')[:140]))
    return probs


def service_lock_nontrivial(script, impl):
    return any(l.startswith('scancancel') for l in script) or service_nontrivial(script, impl)


def replica_nontrivial(script, impl):
    """C16: on a read-only engine at least two different client mutators rejected, a replicated entry applied, a read
    answered"""
    ro = False
    rejected, applied, read = set(), False, False
    for ws, out in _lines(script, impl):
        if ws[0] == 'open':
            ro = 'ro=1' in ws
        elif ws[0] == 'readonly':
            ro = ws[1] == 'on'
        elif ro:
            svc = _parse(out)[0] or ''
            if ws[0] in ('rpc', 'emb') and svc in RO_ERRS:
                rejected.add((ws[0], ws[1]))
            if ws[0] == 'apply' and svc == 'ok':
                applied = True
            if ws[0] in ('rpc', 'emb') and ws[1] in ('Get', 'Scan') and not svc.startswith('err:'):
                read = True
    return len(rejected) >= 2 and applied and read


def service_stats(results):
    d = dict(calls={}, outcomes={}, scan_option_combinations={}, boundary_requests=0, readonly_rejections={}, flavours={},
             interleaved_handle_cases=0, max_open_handles=0)
    for r in results:
        fl = (r.script[0].split() + ['?', '?', '?', '?'])[3] if r.script else '?'
        d['flavours'][fl] = d['flavours'].get(fl, 0) + 1
        openh = set()
        mx = 0
        for ws, out in _ops(r.script, r.impl):
            if ws[0] not in ('rpc', 'emb', 'apply'):
                continue
            name = ws[0] + ':' + (ws[1] if ws[0] != 'apply' else ws[1])
            svc = (_parse(out)[0] or out.split()[0] if out else '?')
            cls = svc.split(':')[0] + (':' + svc.split(':')[1] if svc.startswith('err:') else '')
            d['calls'][name] = d['calls'].get(name, 0) + 1
            d['outcomes'][cls] = d['outcomes'].get(cls, 0) + 1
            if svc in RO_ERRS:
                d['readonly_rejections'][name] = d['readonly_rejections'].get(name, 0) + 1
            if ws[0] == 'rpc' and ws[1] in ('Scan', 'TxScan'):
                f = ws[2:] if ws[1] == 'Scan' else ws[3:]
                combo = ''.join('1' if x != '=' else '0' for x in f[:4]) + ('L' if int(f[4]) > 0 else '-')
                d['scan_option_combinations'][combo] = d['scan_option_combinations'].get(combo, 0) + 1
            if any(w.startswith('*') for w in ws):
                d['boundary_requests'] += 1
            if ws[0] == 'rpc' and ws[1] == 'BeginTransaction' and svc.startswith('tx:'):
                openh.add(svc[3:])
            if ws[0] == 'rpc' and ws[1] in ('CommitTransaction', 'RollbackTransaction'):
                openh.discard(ws[2])
            mx = max(mx, len(openh))
        d['max_open_handles'] = max(d['max_open_handles'], mx)
        if mx >= 2:
            d['interleaved_handle_cases'] += 1
    d['scan_option_combinations_hit'] = len(d['scan_option_combinations'])
    return d
