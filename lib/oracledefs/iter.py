"""oracle, non-triviality rule and statistics for component `iter` (C05).

The oracle is the executable SPECIFICATION of a scan, independent of the Lean model: the merged view of the sources
(the first source that has a key wins, within a source the first entry of the key wins), overlaid with the
transaction's buffered operations, restricted by bounds / prefix / suffix; cursor semantics on that view:
first = smallest key, last = greatest key, Seek(t) = smallest key >= t, Next = the next greater key; a service
scan = the live entries of the view, cut at the limit.

When a source is not sorted by key (adversarial input) only the robustness clause is checked: emitted keys are
strictly ascending, nothing panics, nothing runs away.
"""
from oracledefs.common import *
from oracledefs.common import _ops, _kb

def _val(tok):
    return None if tok == '-' else _kb(tok)


def _show(b):
    if b is None:
        return '-'
    return b.hex() or '='


def _opt(tok):
    return None if tok == '-' else _kb(tok)


def _field(tok):
    v = tok.split('=', 1)[1]
    return b'' if v == '-' else _kb(v)


def _pairs(ws):
    return [(_kb(ws[i]), _val(ws[i + 1])) for i in range(0, len(ws) - 1, 2)]


def _sorted_src(es):
    ks = [k for k, _ in es]
    return all(a <= b for a, b in zip(ks, ks[1:]))


def _merge(sources):
    d = {}
    for es in sources:
        for k, v in es:
            if k not in d:
                d[k] = v
    return d


def _buffer(ops):
    d = {}
    for kind, k, v in ops:
        d[k] = None if kind == 'd' else v
    return d


def _in(lo, hi, k):
    return (lo is None or k >= lo) and (hi is None or k < hi)


class _Case:
    def __init__(self):
        self.sources = []       # lists of (k, v)
        self.tx = None          # list of (kind, k, v) or None
        self.view = None        # sorted list of (k, v) the current iterator must show
        self.pos = 'invalid'    # int | 'invalid' | 'unknown'
        self.prev_key = None    # adversarial: last key shown

    def adversarial(self):
        return not all(_sorted_src(es) for es in self.sources)

    def base(self, with_tx):
        d = _merge(self.sources)
        if with_tx and self.tx is not None:
            d.update(_buffer(self.tx))
        return sorted(d.items())


def _expect(entry, ret):
    if entry is None:
        return '%s f - - f' % ret
    k, v = entry
    return '%s t %s %s %s' % (ret, _show(k), _show(v), 't' if v is None else 'f')


def iter_oracle(script, impl):
    probs = []
    c = _Case()
    for ws, out in _ops(script, impl):
        op = ws[0]
        if out.startswith('panic') or out.startswith('CRASH') or 'RUNAWAY' in out:
            probs.append('%s: %s' % (' '.join(ws)[:60], out[:160]))
            continue
        if op == 'new':
            c = _Case()
            continue
        if op == 'src':
            c.sources.append(_pairs(ws[3:]))
            if out != 'ok':
                probs.append('src rejected: ' + out[:80])
            continue
        if op == 'tx':
            c.tx = [(ws[i], _kb(ws[i + 1]), _kb(ws[i + 2])) for i in range(2, len(ws) - 2, 3)]
            if out != 'ok':
                probs.append('tx rejected: ' + out[:80])
            continue
        if op == 'txmore':   # further writes in the same transaction: the write set as it is NOW is what later scans overlay
            c.tx = list(c.tx or []) + [(ws[i], _kb(ws[i + 1]), _kb(ws[i + 2])) for i in range(2, len(ws) - 2, 3)]
            if out != 'ok':
                probs.append('txmore rejected: ' + out[:80])
            continue
        adv = c.adversarial()
        if op == 'build':
            c.pos, c.prev_key = 'invalid', None
            v = c.base(ws[1] in ('txiter', 'txrange'))
            if len(ws) == 4:
                lo, hi = _opt(ws[2]), _opt(ws[3])
                v = [(k, x) for k, x in v if _in(lo, hi, k)]
            c.view = v
            continue
        if op in ('bound', 'prefix', 'suffix'):
            if c.view is None:
                continue        # nothing built yet (shrunk script)
            c.pos, c.prev_key = 'unknown', None
            if op == 'bound':
                lo, hi = _opt(ws[1]), _opt(ws[2])
                c.view = [(k, x) for k, x in c.view if _in(lo, hi, k)]
            elif op == 'prefix':
                p = _kb(ws[1])
                c.view = [(k, x) for k, x in c.view if k.startswith(p)]
            else:
                p = _kb(ws[1])
                c.view = [(k, x) for k, x in c.view if k.endswith(p)]
            continue
        if op == 'scan':
            pre, suf, start, end = _field(ws[1]), _field(ws[2]), _field(ws[3]), _field(ws[4])
            limit = int(ws[5].split('=')[1])
            if adv:
                keys = [_kb(p.split(':')[0]) for p in out.split()[2:]]
                if any(a >= b for a, b in zip(keys, keys[1:])):
                    probs.append('scan over unsorted sources not strictly ascending: ' + out[:160])
                continue
            v = c.base(True)
            if pre or suf:     # a filter decides; start/end are not part of a filtered scan
                v = [(k, x) for k, x in v if k.startswith(pre) and k.endswith(suf)]
            else:
                v = [(k, x) for k, x in v if _in(start or None, end or None, k)]
            v = [(k, x) for k, x in v if x is not None]
            if limit > 0:
                v = v[:limit]
            w = ('scan %d ' % len(v) + ' '.join('%s:%s' % (_show(k), _show(x)) for k, x in v)).strip()
            if out != w:
                probs.append('%s: got "%s" want "%s"' % (' '.join(ws)[:120], out[:160], w[:160]))
            continue
        if c.view is None or out == 'bad-op':
            continue            # no iterator built (shrunk script): nothing to specify; the model answers the same
        o = out.split()
        if op == 'collect':
            keys = [_kb(p.split(':')[0]) for p in o[2:]]
            if any(a >= b for a, b in zip(keys, keys[1:])):
                probs.append('collect not strictly ascending: ' + out[:160])
            elif not adv:
                w = ('collect %d ' % len(c.view) + ' '.join('%s:%s' % (_show(k), _show(x)) for k, x in c.view)).strip()
                if out != w:
                    probs.append('collect: got "%s" want "%s"' % (out[:160], w[:160]))
            c.pos, c.prev_key = 'invalid', None
            continue
        if len(o) != 5:
            probs.append('%s: malformed output %s' % (' '.join(ws), out[:80]))
            continue
        shown_valid, shown_key = o[1] == 't', (None if o[2] == '-' else _kb(o[2]))
        if adv:
            # robustness only: Next moves to a strictly greater key
            if op == 'next' and c.prev_key is not None and shown_valid and not (shown_key > c.prev_key):
                probs.append('next went from %s to %s (not ascending)' % (c.prev_key.hex(), o[2]))
            c.prev_key = shown_key if shown_valid else None
            continue
        V = c.view
        want = None
        if op == 'first':
            c.pos = 0 if V else 'invalid'
            want = _expect(V[0] if V else None, '-')
        elif op == 'last':
            c.pos = len(V) - 1 if V else 'invalid'
            want = _expect(V[-1] if V else None, '-')
            if out != want and not (not V and o[1] == 'f'):
                probs.append('last: got "%s" want "%s" (greatest key of the view)' % (out[:120], want[:120]))
                c.pos = 'unknown'
                continue
        elif op == 'seek':
            t = _kb(ws[1])
            idx = next((i for i, (k, _) in enumerate(V) if k >= t), None)
            if idx is None:
                c.pos = 'unknown'   # a failed Seek reports false; where it leaves the cursor is not specified
                if o[0] != 'f':
                    probs.append('seek %s: reported found (%s) but no key >= target is in view' % (ws[1][:40], out[:80]))
                continue
            c.pos = idx
            want = _expect(V[idx], 't')
        elif op == 'next':
            if c.pos == 'unknown':
                continue
            if c.pos == 'invalid':
                want = _expect(None, 'f')
            else:
                c.pos += 1
                if c.pos < len(V):
                    want = _expect(V[c.pos], 't')
                else:
                    c.pos = 'invalid'
                    want = _expect(None, 'f')
        elif op == 'cur':
            if c.pos == 'unknown':
                continue
            want = _expect(None if c.pos == 'invalid' else V[c.pos], '-')
        if want is not None and want.split()[1] == 'f' and o[:2] == want.split()[:2]:
            continue            # not valid: what Key()/Value() return then is not specified (a filter shows the hidden key)
        if want is not None and out != want:
            probs.append('%s: got "%s" want "%s"' % (' '.join(ws)[:80], out[:120], want[:120]))
            c.pos = 'unknown'
    return probs


def iter_nontrivial(script, impl):
    """several sources sharing a key (or several versions of one key), and at least one answered query"""
    seen, shared, queries = set(), False, 0
    for ws, out in _ops(script, impl):
        if ws[0] == 'src':
            ks = [k for k, _ in _pairs(ws[3:])]
            if len(set(ks)) < len(ks) or (set(ks) & seen):
                shared = True
            seen |= set(ks)
        elif ws[0] == 'tx':
            if any(ws[i + 1] and _kb(ws[i + 1]) in seen for i in range(2, len(ws) - 2, 3)):
                shared = True
        elif ws[0] in ('first', 'last', 'next', 'seek', 'collect', 'scan') and out and not out.startswith('bad-op'):
            queries += 1
    return shared and queries > 0


def iter_stats(results):
    d = dict(tags={}, ops={}, cases_with_shadowing_tombstone=0, max_sources=0, last_under_end_bound=0)
    for r in results:
        tag = (r.script[0].split() + ['', '', ''])[3] if r.script and r.script[0].startswith('#') else ''
        d['tags'][tag] = d['tags'].get(tag, 0) + 1
        srcs = []
        for ws, out in _ops(r.script, r.impl):
            d['ops'][ws[0]] = d['ops'].get(ws[0], 0) + 1
            if ws[0] == 'src':
                srcs.append(_pairs(ws[3:]))
        d['max_sources'] = max(d['max_sources'], len(srcs))
        older = set()
        shadow = False
        for es in reversed(srcs):
            for k, v in es:
                if v is None and k in older:
                    shadow = True
            older |= set(k for k, v in es if v is not None)
        d['cases_with_shadowing_tombstone'] += 1 if shadow else 0
        bounded = False
        for ws, out in _ops(r.script, r.impl):
            if ws[0] == 'build':
                bounded = len(ws) == 4 and ws[3] != '-'
            elif ws[0] == 'bound' and ws[2] != '-':
                bounded = True
            elif ws[0] == 'last' and bounded:
                d['last_under_end_bound'] += 1
    return d
